#!/usr/bin/env python3
"""Confirm a seeded change produced by a sub-agent and run the checks on it.

  tools/seeded.py add <out-dir> <N> <property> <id>     confirm + store under /verif/seeded/<id>/
  tools/seeded.py run [<id> ...]                        run the property's quick check against each stored change
                                                         (scratch worktree, removed afterwards) -> seeded/RESULTS.json

Confirmation (all in a scratch worktree of /repo's HEAD under /tmp/mutv/<id>, removed afterwards):
  1. the patch applies and the library builds (cmake, RelWithDebInfo),
  2. the existing test suite passes with the change (ctest),
  3. the demonstration fails with the change and passes without it.
Nothing is ever applied to /repo itself."""
import json, os, re, shutil, subprocess, sys, time

VERIF = os.path.dirname(os.path.dirname(os.path.abspath(__file__)))
SEEDED = os.path.join(VERIF, "seeded")
SCR = "/tmp/mutv-%d" % os.getpid()   # per process: two suites may run side by side


def sh(cmd, **kw):
    p = subprocess.run(cmd, shell=isinstance(cmd, str), stdout=subprocess.PIPE, stderr=subprocess.STDOUT, text=True, **kw)
    return p.returncode, p.stdout


def worktree(id_):
    wt = os.path.join(SCR, id_)
    sh(["git", "-C", "/repo", "worktree", "remove", "--force", wt])
    shutil.rmtree(wt, ignore_errors=True)
    os.makedirs(SCR, exist_ok=True)
    rc, out = sh(["git", "-C", "/repo", "worktree", "add", "--detach", wt, "HEAD"])
    if rc:
        raise RuntimeError(out)
    return wt


def drop(wt):
    sh(["git", "-C", "/repo", "worktree", "remove", "--force", wt])
    shutil.rmtree(wt, ignore_errors=True)
    sh(["git", "-C", "/repo", "worktree", "prune"])


def add(outdir, n, prop, id_):
    dst = os.path.join(SEEDED, id_)
    os.makedirs(dst, exist_ok=True)
    shutil.copy(os.path.join(outdir, "change%s.diff" % n), os.path.join(dst, "patch.diff"))
    for ext in ("c", "sh"):
        shutil.copy(os.path.join(outdir, "demo%s.%s" % (n, ext)), os.path.join(dst, "demo." + ext))
    note = open(os.path.join(outdir, "note%s.md" % n)).read() if os.path.exists(os.path.join(outdir, "note%s.md" % n)) else ""
    open(os.path.join(dst, "note.md"), "w").write(note)
    # demo.sh refers to demoN.c next to itself: keep that name too
    shutil.copy(os.path.join(outdir, "demo%s.c" % n), os.path.join(dst, "demo%s.c" % n))
    os.chmod(os.path.join(dst, "demo.sh"), 0o755)
    wt = worktree(id_)
    meta = dict(id=id_, property=prop, source="sub-agent (given only the property text and its own scratch worktree)",
                ran=[])
    try:
        rc, out = sh(["git", "-C", wt, "apply", os.path.join(dst, "patch.diff")])
        meta["patch_applies"] = rc == 0
        meta["ran"].append("git apply patch.diff -> %d" % rc)
        if rc:
            meta["error"] = out[-800:]
            return meta
        rc, out = sh("cmake -G Ninja -S %s -B %s/_build -DCMAKE_BUILD_TYPE=RelWithDebInfo >/dev/null && cmake --build %s/_build -j16" % (wt, wt, wt))
        meta["builds"] = rc == 0
        meta["ran"].append("cmake configure + build -> %d" % rc)
        if rc:
            meta["error"] = out[-800:]
            return meta
        rc, out = sh("ctest --test-dir %s/_build -j16 --timeout 900" % wt)
        m = re.search(r"(\d+)% tests passed, (\d+) tests failed out of (\d+)", out)
        meta["tests_pass_with_change"] = rc == 0
        meta["tests"] = m.group(0) if m else out[-300:]
        meta["ran"].append("ctest -j16 -> %s" % (m.group(0) if m else rc))
        shutil.rmtree(os.path.join(wt, "_build"), ignore_errors=True)
        rc, out = sh(["bash", os.path.join(dst, "demo.sh"), wt], timeout=1800)
        meta["demo_fails_with_change"] = rc != 0
        meta["demo_output_with_change"] = out[-600:]
        meta["ran"].append("demo.sh <changed tree> -> exit %d" % rc)
        sh(["git", "-C", wt, "checkout", "--", "."])
        rc, out = sh(["bash", os.path.join(dst, "demo.sh"), wt], timeout=1800)
        meta["demo_passes_without_change"] = rc == 0
        meta["ran"].append("demo.sh <unchanged tree> -> exit %d" % rc)
        meta["confirmed"] = all(meta.get(k) for k in ("patch_applies", "builds", "tests_pass_with_change",
                                                      "demo_fails_with_change", "demo_passes_without_change"))
    finally:
        drop(wt)
        json.dump(meta, open(os.path.join(dst, "meta.json"), "w"), indent=1)
    return meta


def run_check(id_, tier="quick", props=None):
    dst = os.path.join(SEEDED, id_)
    meta = json.load(open(os.path.join(dst, "meta.json")))
    wt = worktree(id_)
    res = dict(id=id_, property=meta["property"])
    try:
        rc, out = sh(["git", "-C", wt, "apply", os.path.join(dst, "patch.diff")])
        if rc:
            res["error"] = "patch does not apply: " + out[-300:]
            return res
        res["checks"] = {}
        for prop in (props or [meta["property"]]):
            env = dict(os.environ, VERIF_REPO=wt, VERIF_BUILD_DIR=os.path.join(SCR, id_ + "-build"),
                       VERIF_EVIDENCE_DIR=os.path.join(SCR, id_ + "-evidence"),
                       VERIF_REPLAY_DIR=os.path.join(SCR, id_ + "-replays"))
            t0 = time.time()
            p = subprocess.run([os.path.join(VERIF, "check"), prop, tier], env=env, stdout=subprocess.PIPE,
                               stderr=subprocess.STDOUT, text=True)
            out = p.stdout
            classes = sorted(set(re.findall(r"^\s+((?:O|R|I)\d-[\w-]+) in (\w+)", out, re.M)))
            res["checks"][prop + ":" + tier] = dict(exit=p.returncode, classes=[" in ".join(c) for c in classes],
                                                    violation_lines=len(re.findall(r"^VIOLATION ", out, re.M)),
                                                    wall_s=round(time.time() - t0, 1),
                                                    tail=out[-700:] if p.returncode != 1 else "")
        res["caught"] = any(c["exit"] == 1 and c["violation_lines"] > 0 for c in res["checks"].values())
    finally:
        drop(wt)
        for suf in ("-build", "-evidence", "-replays"):
            shutil.rmtree(os.path.join(SCR, id_ + suf), ignore_errors=True)
    return res


def main():
    if len(sys.argv) >= 6 and sys.argv[1] == "add":
        meta = add(sys.argv[2], sys.argv[3], sys.argv[4], sys.argv[5])
        print(json.dumps({k: v for k, v in meta.items() if k not in ("demo_output_with_change",)}, indent=1))
        return 0 if meta.get("confirmed") else 1
    if len(sys.argv) >= 2 and sys.argv[1] == "run":
        tier = os.environ.get("SEEDED_TIER", "quick")
        ids = sys.argv[2:] or sorted(d for d in os.listdir(SEEDED) if os.path.exists(os.path.join(SEEDED, d, "meta.json")))
        results = []
        for i in ids:
            r = run_check(i, tier)
            results.append(r)
            print("%-28s %s %s %s" % (i, r.get("property"), "CAUGHT" if r.get("caught") else "missed",
                                      json.dumps({k: (v["exit"], v["classes"]) for k, v in r.get("checks", {}).items()})), flush=True)
        if not sys.argv[2:]:
            json.dump(results, open(os.path.join(SEEDED, "RESULTS.json"), "w"), indent=1)
        elif os.environ.get("SEEDED_MERGE") and tier == "quick":
            # re-run of a subset: replace those entries of RESULTS.json
            path = os.path.join(SEEDED, "RESULTS.json")
            old = {r["id"]: r for r in json.load(open(path))} if os.path.exists(path) else {}
            for r in results:
                old[r["id"]] = r
            json.dump([old[k] for k in sorted(old)], open(path, "w"), indent=1)
        return 0
    print(__doc__)
    return 2


if __name__ == "__main__":
    rc = main()
    try:
        os.rmdir(SCR)   # the per-process scratch parent, if empty
    except OSError:
        pass
    sys.exit(rc)
