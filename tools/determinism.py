#!/usr/bin/env python3
"""Determinism proof (DESIGN.md §2.10): N runs per property, each executed
twice in different worker processes — once partitioned over 16 workers, once
over 3 — and the per-run event-log hashes must agree pairwise.

  tools/determinism.py [N=2000] [seed=424242]   -> tools/DETERMINISM.json"""
import json, os, subprocess, sys, time

VERIF = os.path.dirname(os.path.dirname(os.path.abspath(__file__)))
sys.path.insert(0, VERIF)
import vbuild  # noqa


def sweep(exe, prop, seed, runs, workers, outdir):
    os.makedirs(outdir, exist_ok=True)
    procs = []
    for w in range(workers):
        f = open(os.path.join(outdir, "%s-%d-%d.jsonl" % (prop, workers, w)), "w")
        procs.append((f, subprocess.Popen([exe, "run", prop, "--seed", str(seed), "--runs", str(runs), "--workers",
                                           str(workers), "--worker", str(w)], stdout=f, stderr=subprocess.DEVNULL)))
    hashes = {}
    for f, p in procs:
        p.wait()
        f.close()
        for ln in open(f.name):
            j = json.loads(ln)
            hashes[j["run"]] = (j["hash"], len(j.get("violations", [])))
    return hashes


def main():
    n = int(sys.argv[1]) if len(sys.argv) > 1 else 2000
    seed = int(sys.argv[2]) if len(sys.argv) > 2 else 424242
    out = os.path.join(VERIF, "build", "determinism")
    res = {}
    for prop, variant in (("C17", "sim"), ("C16", "sim"), ("C18", "cov")):
        exe, _ = vbuild.build(variant, os.path.join(out, variant))
        t0 = time.time()
        a = sweep(exe, prop, seed, n, 16, out)
        b = sweep(exe, prop, seed, n, 3, out)
        diff = [i for i in range(n) if a.get(i) != b.get(i)]
        res[prop] = dict(runs=n, seed=seed, results_16_workers=len(a), results_3_workers=len(b), mismatches=len(diff),
                         first_mismatches=diff[:10], wall_s=round(time.time() - t0, 1))
        print(prop, res[prop], flush=True)
    json.dump(res, open(os.path.join(VERIF, "tools", "DETERMINISM.json"), "w"), indent=1)
    return 1 if any(r["mismatches"] or r["results_16_workers"] != r["runs"] or r["results_3_workers"] != r["runs"]
                    for r in res.values()) else 0


if __name__ == "__main__":
    sys.exit(main())
