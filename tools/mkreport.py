#!/usr/bin/env python3
"""Fills the result tables of DESIGN.md §9.2/§9.3 from sensitivity/RESULTS.json and seeded/RESULTS.json."""
import json, os, re
V = os.path.dirname(os.path.dirname(os.path.abspath(__file__)))
d = open(os.path.join(V, "DESIGN.md")).read()
def block(name, text):
    global d
    d = re.sub(r"<!-- %s:BEGIN -->.*?<!-- %s:END -->" % (name, name), "<!-- %s:BEGIN -->\n%s\n<!-- %s:END -->" % (name, text, name), d, flags=re.S)
p = os.path.join(V, "sensitivity", "RESULTS.json")
if os.path.exists(p):
    rows = json.load(open(p))
    t = ["| planted defect | property | what | verdict classes reported | as expected |", "|---|---|---|---|---|"]
    for r in rows:
        t.append("| `%s` | %s | %s | %s | %s |" % (r["name"], r["property"], r["what"], ", ".join(r["classes"]) or ("none (exit %d)" % r["exit"]), "yes" if r["ok"] else "**NO**"))
    ok = sum(1 for r in rows if r["ok"])
    t.append("\n%d of %d as expected." % (ok, len(rows)))
    block("SENS", "\n".join(t))
p = os.path.join(V, "seeded", "RESULTS.json")
if os.path.exists(p):
    rows = json.load(open(p))
    t = ["| seeded change | property | breaks / needs | quick check | classes |", "|---|---|---|---|---|"]
    for r in rows:
        m = json.load(open(os.path.join(V, "seeded", r["id"], "meta.json")))
        cls = "; ".join(sorted(set(c for v in r.get("checks", {}).values() for c in v["classes"])))
        verdict = "**caught**" if r.get("caught") else ("missed — outside the claim: " + m["outside_claim"] if m.get("outside_claim") else ("missed by the quick tier — " + m["thorough_only"] if m.get("thorough_only") else "**MISSED**"))
        t.append("| `%s` | %s | %s — *needs:* %s | %s | %s |" % (r["id"], r["property"], m.get("breaks", ""), m.get("needs_to_manifest", ""), verdict, cls))
    c = sum(1 for r in rows if r.get("caught"))
    metas = {r["id"]: json.load(open(os.path.join(V, "seeded", r["id"], "meta.json"))) for r in rows}
    outside = sum(1 for r in rows if not r.get("caught") and metas[r["id"]].get("outside_claim"))
    thor = sum(1 for r in rows if not r.get("caught") and not metas[r["id"]].get("outside_claim") and metas[r["id"]].get("thorough_only"))
    t.append("\n%d of %d caught by the quick tier; %d more by the thorough tier only; %d not caught because they break a clause that is not claimed (or no clause at all); %d missed inside the claim." % (c, len(rows), thor, outside, len(rows) - c - outside - thor))
    block("SEEDED", "\n".join(t))
open(os.path.join(V, "DESIGN.md"), "w").write(d)
