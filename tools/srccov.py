#!/usr/bin/env python3
"""Source-level coverage of libh3 under a property's simulated workload (development aid).

  tools/srccov.py <C16|C17|C18> [runs] [tier] [file ...]

Builds the `sim-prof` variant (clang, shipped flags, allocator bound to the simulated heap,
-fprofile-instr-generate -fcoverage-mapping), runs <runs> runs over 16 workers, merges the
profiles and prints llvm-cov's report plus the uncovered lines of the named files
(default: the files C17 is anchored in).  Only the simulated copy is instrumented, so the
numbers say which library code ran *under the simulator* (with faults / on the simulated heap).
"""
import os, subprocess, sys, shutil, glob, re

VERIF = os.path.dirname(os.path.dirname(os.path.abspath(__file__)))
sys.path.insert(0, VERIF)
import vbuild  # noqa: E402


def main():
    prop = sys.argv[1]
    runs = int(sys.argv[2]) if len(sys.argv) > 2 else 3000
    tier = sys.argv[3] if len(sys.argv) > 3 else "quick"
    files = sys.argv[4:] or ["h3Index.c", "algos.c", "polyfill.c", "directedEdge.c"]
    outdir = os.path.join(os.environ.get("VERIF_BUILD_DIR", os.path.join(VERIF, "build")), "srccov-prof")
    exe, _ = vbuild.build("sim-prof", outdir)
    pd = os.path.join(outdir, "prof")
    shutil.rmtree(pd, ignore_errors=True)
    os.makedirs(pd)
    seed = os.environ.get("VERIF_SEED", "20260927")
    procs = []
    nw = 16
    for w in range(nw):
        env = dict(os.environ, LLVM_PROFILE_FILE=os.path.join(pd, "w%d.profraw" % w))
        procs.append(subprocess.Popen([exe, "run", prop, "--seed", seed, "--runs", str(runs), "--workers", str(nw),
                                       "--worker", str(w), "--tier", tier], stdout=subprocess.DEVNULL,
                                      stderr=subprocess.DEVNULL, env=env))
    for p in procs:
        p.wait()
    merged = os.path.join(pd, "all.profdata")
    subprocess.check_call(["llvm-profdata-14", "merge", "-o", merged] + glob.glob(os.path.join(pd, "*.profraw")))
    rep = subprocess.run(["llvm-cov-14", "report", exe, "-instr-profile=" + merged], stdout=subprocess.PIPE, text=True).stdout
    print(rep)
    for f in files:
        path = os.path.join(vbuild.REPO, "src/h3lib/lib", f)
        show = subprocess.run(["llvm-cov-14", "show", exe, "-instr-profile=" + merged, path, "-show-branches=count"],
                              stdout=subprocess.PIPE, text=True).stdout
        print("==== uncovered lines in %s" % f)
        for ln in show.split("\n"):
            m = re.match(r"\s*(\d+)\|\s*0\|(.*)", ln)
            if m and m.group(2).strip() not in ("", "}", "{"):
                print("  %5s: %s" % (m.group(1), m.group(2)))


if __name__ == "__main__":
    main()
