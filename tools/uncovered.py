#!/usr/bin/env python3
"""Which control-flow edges of libh3 does a property's workload never take?

  tools/uncovered.py <C16|C17|C18> [runs] [tier] [file-filter-regex]

Builds the clang `cov` variant (shipped flags + trace-pc-guard) from the tree under
test, runs <runs> simulated runs of the property over 16 workers, unions the
per-run edge bitmaps and prints, per function, covered/total edges and the source
lines of the edges never taken (addr2line on the pc-table).  Development aid: it
is how gaps in the generators are found; the same numbers go into the evidence.
"""
import json, os, re, subprocess, sys, collections

VERIF = os.path.dirname(os.path.dirname(os.path.abspath(__file__)))
sys.path.insert(0, VERIF)
import vbuild  # noqa: E402


def bits_of(hexstr):
    b = 0
    for n, ch in enumerate(hexstr):
        v = int(ch, 16)
        if v:
            b |= v << (4 * n)
    return b


def addr2line(exe, pcs):
    out = subprocess.run(["addr2line", "-e", exe, "-i"] + pcs, stdout=subprocess.PIPE, text=True).stdout
    # with -i an address may give several lines (inline chain); re-run without -i for 1:1 and keep -i separately
    out1 = subprocess.run(["addr2line", "-e", exe] + pcs, stdout=subprocess.PIPE, text=True).stdout.split("\n")
    return [re.sub(r"^.*/src/h3lib/", "", x).split(" ")[0] for x in out1[:len(pcs)]]


def main():
    prop = sys.argv[1]
    runs = int(sys.argv[2]) if len(sys.argv) > 2 else 3000
    tier = sys.argv[3] if len(sys.argv) > 3 else "quick"
    filt = re.compile(sys.argv[4]) if len(sys.argv) > 4 else None
    outdir = os.path.join(os.environ.get("VERIF_BUILD_DIR", os.path.join(VERIF, "build")), "uncovered-cov")
    exe, _ = vbuild.build("cov", outdir)
    layout = json.loads(subprocess.run([exe, "layout"], stdout=subprocess.PIPE).stdout)
    fns, pcs = layout["guard_functions"], layout["guard_pcs"]
    seed = os.environ.get("VERIF_SEED", "20260927")
    procs = []
    nw = 16
    for w in range(nw):
        procs.append(subprocess.Popen([exe, "run", prop, "--seed", seed, "--runs", str(runs), "--workers", str(nw),
                                       "--worker", str(w), "--tier", tier], stdout=subprocess.PIPE, stderr=subprocess.DEVNULL))
    cov = 0
    nlines = 0
    for p in procs:
        for ln in p.stdout:
            try:
                j = json.loads(ln)
            except Exception:
                continue
            nlines += 1
            if "cov" in j:
                cov |= bits_of(j["cov"])
        p.wait()
    lines = addr2line(exe, ["0x" + x for x in pcs])
    per = collections.OrderedDict()
    for i, f in enumerate(fns):
        g = i + 1
        hit = (cov >> g) & 1
        d = per.setdefault(f, dict(total=0, hit=0, miss=[]))
        d["total"] += 1
        d["hit"] += hit
        if not hit:
            d["miss"].append(lines[i])
    tot = sum(d["total"] for d in per.values())
    hit = sum(d["hit"] for d in per.values())
    print("%s: %d runs, %d/%d edges covered, %d/%d functions entered" % (
        prop, nlines, hit, tot, sum(1 for d in per.values() if d["hit"]), len(per)))
    for f, d in sorted(per.items(), key=lambda kv: kv[0]):
        if d["hit"] == d["total"]:
            continue
        if filt and not any(filt.search(m) for m in d["miss"]) and not filt.search(f):
            continue
        tag = "NEVER ENTERED" if d["hit"] == 0 else ""
        print("  %-40s %3d/%3d %s" % (f, d["hit"], d["total"], tag))
        if d["hit"]:
            print("        missing: " + " ".join(sorted(set(d["miss"]))))


if __name__ == "__main__":
    main()
