#!/usr/bin/env python3
"""Builds the simulator from /repo's *current working tree* (DESIGN.md §2.2).

Variants
  sim       gcc, shipped flags, allocator bound to the simulated heap (C16, C17)
  cov       clang, + trace-pc-guard preemption points, write-trap section layout (C18)
  sim-asan  sim  + -fsanitize=address,undefined, heap delegating to ASan malloc
  cov-asan  cov  + -fsanitize=address,undefined
Each variant links a second copy of the same tree ("ref": default allocator,
all global symbols prefixed ref_) built with the same compiler and flags.
/repo/_build is never used or touched.  Nothing is written outside <outdir>.
"""
import os, re, subprocess, sys, shutil, time
from concurrent.futures import ThreadPoolExecutor

VERIF = os.path.dirname(os.path.abspath(__file__))
REPO = os.environ.get("VERIF_REPO", "/repo")
SIMDIR = os.path.join(VERIF, "sim")
HOOK_DEFINE = "H3_VERIF_SIM"   # MANIFEST.hooks.guard; no source file uses it

SHIPPED = ["-DBUILDING_H3=1", "-DH3_PREFIX=", "-O2", "-g", "-DNDEBUG", "-D" + HOOK_DEFINE + "=1"]

SIM_SOURCES = ["heap.cc", "statics.cc", "ambient.cc", "contain.cc", "constmem.cc", "op.cc", "gen.cc", "single.cc",
               "c17.cc", "c16.cc", "minimize.cc", "main.cc"]
COV_SOURCES = ["sched.cc", "trap.cc", "c18.cc"]


class BuildError(Exception):
    pass


def run(cmd, **kw):
    p = subprocess.run(cmd, stdout=subprocess.PIPE, stderr=subprocess.STDOUT, text=True, **kw)
    if p.returncode != 0:
        raise BuildError("command failed: %s\n%s" % (" ".join(cmd), p.stdout[-4000:]))
    return p.stdout


def gen_header(incdir):
    """h3api.h from h3api.h.in + VERSION, the same substitution CMake does."""
    os.makedirs(incdir, exist_ok=True)
    ver = open(os.path.join(REPO, "VERSION")).readline().strip()
    ver = re.sub(r"-.*$", "", ver)
    major, minor, patch = (ver.split(".") + ["0", "0"])[:3]
    src = open(os.path.join(REPO, "src/h3lib/include/h3api.h.in")).read()
    src = (src.replace("@H3_VERSION_MAJOR@", major)
              .replace("@H3_VERSION_MINOR@", minor)
              .replace("@H3_VERSION_PATCH@", patch))
    with open(os.path.join(incdir, "h3api.h"), "w") as f:
        f.write(src)


def lib_sources():
    d = os.path.join(REPO, "src/h3lib/lib")
    return sorted(os.path.join(d, f) for f in os.listdir(d) if f.endswith(".c"))


def compile_many(jobs, workers=16):
    with ThreadPoolExecutor(max_workers=workers) as ex:
        for _ in ex.map(lambda c: run(c), jobs):
            pass


def build_lib(outdir, name, cc, extra, incdir, prefix=None, rename_sections=False, link_seam=False, sectag="w"):
    """Relocatable link of all library objects -> outdir/<name>.o"""
    od = os.path.join(outdir, name + ".objs")
    shutil.rmtree(od, ignore_errors=True)
    os.makedirs(od)
    srcs = lib_sources()
    inc = ["-I" + os.path.join(REPO, "src/h3lib/include"), "-I" + incdir]
    jobs, objs = [], []
    for s in srcs:
        o = os.path.join(od, os.path.basename(s)[:-2] + ".o")
        objs.append(o)
        jobs.append([cc] + SHIPPED + extra + inc + ["-c", s, "-o", o])
    compile_many(jobs)
    rel = os.path.join(outdir, name + ".o")
    run(["ld", "-r", "-o", rel] + objs)
    # ambient sources (clock, random, environment, sleeping, blocking locks) go behind simulator-owned shims
    # (sim/ambient.cc); the current tree imports none of them, so this is a no-op unless a change adds one
    amb = os.path.join(od, "ambient.txt")
    with open(amb, "w") as f:
        for fn in ("time", "clock", "clock_gettime", "gettimeofday", "rand", "random", "srand", "srandom", "rand_r",
                   "getenv", "getpid", "sleep", "usleep", "nanosleep", "sched_yield", "pthread_mutex_lock",
                   "pthread_spin_lock", "strtok", "localtime", "gmtime", "asctime", "ctime", "strerror", "setlocale"):
            f.write("%s h3amb_%s\n" % (fn, fn))
    run(["objcopy", "--redefine-syms=" + amb, rel])
    if not prefix:
        # the simulated copy must obtain ALL heap memory through H3_MEMORY(...) (bound to the simulated heap by
        # -DH3_ALLOC_PREFIX).  A plain libc allocator call added by a change would be invisible to every monitor,
        # so such calls are routed into the same arena (heap.cc: h3byp_*): tracked, never failed, and a block
        # crossing between the two families is reported.  The unchanged tree makes none.
        byp = os.path.join(od, "bypass.txt")
        with open(byp, "w") as f:
            for fn in ("malloc", "calloc", "realloc", "free"):
                # default-configuration builds ("-np"): these ARE the library's heap requests, bound to the seam here
                f.write("%s %s_%s\n" % (fn, "h3sim" if link_seam else "h3byp", fn))
        run(["objcopy", "--redefine-syms=" + byp, rel])
    if prefix:
        syms = run(["nm", "--defined-only", "-g", rel]).split("\n")
        mapping = os.path.join(od, "redefine.txt")
        with open(mapping, "w") as f:
            for line in syms:
                parts = line.split()
                if len(parts) == 3:
                    f.write("%s %s%s\n" % (parts[2], prefix, parts[2]))
            # the reference copy keeps the *default allocator binding* (H3_MEMORY(x) = x) but its libc
            # allocator calls are routed through a shim (heap.cc: refalloc_*) that zero-fills, never fails and
            # tolerates bad frees, so that the reference is deterministic even for a defective tree
            for fn in ("malloc", "calloc", "realloc", "free"):
                f.write("%s refalloc_%s\n" % (fn, fn))
        run(["objcopy", "--redefine-syms=" + mapping, rel])
    if rename_sections:
        # library-owned writable static storage goes onto its own pages (§2.5): EVERY allocated writable
        # section of the library (not only .data/.bss — also custom-named ones a change might introduce) is
        # renamed, except thread-local storage (not shared), RELRO (read-only at run time anyway) and the
        # instrumentation's own bookkeeping
        secs = run(["readelf", "-S", "-W", rel])
        args, seen = [], set()
        keep = ("__sancov", ".init_array", ".fini_array", ".ctors", ".dtors", ".data.rel.ro", "h3wdata", "h3wbss", "h3rdata", "h3rbss")
        for m in re.finditer(r"^\s*\[\s*\d+\]\s+(\S+)\s+(PROGBITS|NOBITS)\s+\S+\s+\S+\s+\S+\s+\S+\s+(\S+)\s", secs, re.M):
            sec, typ, flags = m.group(1), m.group(2), m.group(3)
            if "W" not in flags or "A" not in flags or "T" in flags or sec.startswith(keep) or sec in seen:
                continue
            seen.add(sec)
            if typ == "NOBITS":
                args += ["--rename-section", sec + "=h3%sbss,alloc" % sectag]
            else:
                args += ["--rename-section", sec + "=h3%sdata,alloc,load,data,contents" % sectag]
        if args:
            run(["objcopy"] + args + [rel])
    return rel


def build(variant, outdir):
    t0 = time.time()
    os.makedirs(outdir, exist_ok=True)
    incdir = os.path.join(outdir, "include")
    gen_header(incdir)
    # variant = base ("sim": gcc, "cov": clang + trace-pc-guard) followed by any of the option suffixes
    parts = variant.split("-")
    cov = parts[0] == "cov"
    opts = set(parts[1:])
    asan = "asan" in opts
    omit = "omit" in opts   # ALWAYS()/NEVER() hard-wired (h3Assert.h H3_OMIT_AUXILIARY_SAFETY_CHECKS) + _FORTIFY_SOURCE=3: thorough-tier slice
    tp = "tp" in opts       # gcc + -fsanitize-coverage=trace-pc: preemption points in code from the shipped compiler
    prof = "prof" in opts   # development aid: clang source-based coverage of the simulated copy (tools/srccov.py)
    dbg = "dbg" in opts     # WITHOUT -DNDEBUG (assert-enabled builds are legitimate deployments)
    c99 = "c99" in opts     # strict -std=c99 (the project declares c_std_99): C99 fallbacks of code selected by __STDC_VERSION__
    noprefix = "np" in opts # the library in its DEFAULT configuration (H3_ALLOC_PREFIX undefined, which is what is shipped):
                            # the allocator seam is applied at link time instead (malloc/calloc/realloc/free of the library
                            # objects renamed to the simulated heap), so code under "#ifndef H3_ALLOC_PREFIX" is in the
                            # simulated copy
    cc = "clang" if (cov or prof) else "gcc"
    san = ["-fsanitize=address,undefined", "-fno-omit-frame-pointer", "-fno-sanitize-recover=undefined"] if asan else []
    if asan and not cov:
        # gcc: keep going after UBSan reports so that they are classified, not fatal mid-run
        san = ["-fsanitize=address,undefined", "-fno-omit-frame-pointer"]
    simflags = ([] if noprefix else ["-DH3_ALLOC_PREFIX=h3sim_"]) + san
    refflags = list(san)
    if dbg:
        simflags += ["-UNDEBUG"]
        refflags += ["-UNDEBUG"]
    if c99:
        simflags += ["-std=c99"]
        refflags += ["-std=c99"]
    if omit:
        # ... and, in the same slice, glibc's strictest fortification: object sizes the compiler derives from
        # allocator attributes are checked at run time (a wrong alloc_size attribute aborts here)
        # H3_COVERAGE_TEST is the project's own switch for this configuration (cmake ENABLE_COVERAGE): it implies
        # H3_OMIT_AUXILIARY_SAFETY_CHECKS and makes the testcase() coverage counter live
        simflags += ["-DH3_COVERAGE_TEST=1", "-U_FORTIFY_SOURCE", "-D_FORTIFY_SOURCE=3"]
        refflags += ["-DH3_COVERAGE_TEST=1", "-U_FORTIFY_SOURCE", "-D_FORTIFY_SOURCE=3"]
    if cov:
        simflags += ["-fsanitize-coverage=trace-pc-guard,pc-table", "-fno-pic"]
        refflags += ["-fno-pic"]
    if tp:
        simflags += ["-fsanitize-coverage=trace-pc"]
    if prof:
        simflags += ["-fprofile-instr-generate", "-fcoverage-mapping"]
    fence = not asan and not prof   # ASan registers globals by section; leave its layout alone
    lib_sim = build_lib(outdir, "libsim", cc, simflags, incdir, rename_sections=fence, link_seam=noprefix)
    # the reference copy's static storage is fenced as well (sections h3rdata/h3rbss): restored before every execution
    # (a tree that keeps state across calls must not make the REFERENCE depend on history either) and write-protected
    # by the C18 trap (a store there is a store to static storage in the default configuration of the library)
    lib_ref = build_lib(outdir, "libref", cc, refflags, incdir, prefix="ref_", rename_sections=fence, sectag="r")
    # simulator objects (never instrumented with coverage guards)
    cxx = ["g++", "-std=c++17", "-O1", "-g", "-Wall", "-Wno-unused-function", "-I" + SIMDIR, "-I" + incdir]
    cxx += ["-DSIM_COV=1"]
    if cov:
        cxx += ["-fno-pic"]
    if prof:
        cxx += ["-DSIM_NO_STATIC_FENCE=1"]
    if asan:
        cxx += ["-DSIM_NO_STATIC_FENCE=1", "-DSIM_DELEGATE_MALLOC=1", "-fsanitize=address,undefined", "-fno-omit-frame-pointer"]
    od = os.path.join(outdir, "simobjs")
    shutil.rmtree(od, ignore_errors=True)
    os.makedirs(od)
    jobs, objs = [], []
    for s in SIM_SOURCES + COV_SOURCES:   # scheduler, trap and C18 driver are part of every variant
        o = os.path.join(od, s[:-3] + ".o")
        objs.append(o)
        jobs.append(cxx + ["-c", os.path.join(SIMDIR, s), "-o", o])
    for var, pfx, extra in (("SIM", "", ["-DAPI_DEFINE_NAMES=1"]), ("REF", "ref_", [])):
        o = os.path.join(od, "api_%s.o" % var)
        objs.append(o)
        jobs.append(cxx + ["-DAPI_VAR=" + var, "-DAPI_PFX=" + pfx] + extra +
                    ["-c", os.path.join(SIMDIR, "api_table.cc"), "-o", o])
    pads = []
    if fence:
        for tag in ("w", "r"):
            for nm in ("pad_before", "pad_after"):
                src = os.path.join(od, "%s_%s.c" % (tag, nm))
                with open(src, "w") as f:
                    f.write('__attribute__((section("h3%sdata"), aligned(4096))) char h3%s_%s_data[4096] = {1};\n' % (tag, tag, nm))
                    # "aw",@nobits# : the trailing '#' comments out gcc's own flags, so the pad is NOBITS
                    # like the library's renamed .bss and the linker merges them into one output section
                    f.write('__attribute__((section("h3%sbss,\\"aw\\",@nobits#"), aligned(4096))) char h3%s_%s_bss[4096];\n' % (tag, tag, nm))
                o = os.path.join(od, "%s_%s.o" % (tag, nm))
                pads.append(o)
                jobs.append(["gcc", "-c"] + (["-fno-pic"] if cov else []) + [src, "-o", o])
    compile_many(jobs)
    exe = os.path.join(outdir, "simh3")
    link = ["g++", "-no-pie", "-o", exe] + objs
    if fence:
        link += [pads[0], lib_sim, pads[1], pads[2], lib_ref, pads[3]]
    else:
        link += [lib_sim, lib_ref]
    link += ["-lm", "-lpthread"]
    if asan:
        link += ["-fsanitize=address,undefined"]
    if prof:
        import glob
        link += ["-Wl,-u,__llvm_profile_runtime"] + glob.glob("/usr/lib/llvm-14/lib/clang/14*/lib/linux/libclang_rt.profile-x86_64.a")
    run(link)
    if fence:
        secs = run(["readelf", "-S", "-W", exe])
        for name in ("h3wdata", "h3wbss", "h3rdata", "h3rbss"):
            if len(re.findall(r"\]\s+%s\s" % name, secs)) != 1:
                raise BuildError("write-trap layout: expected exactly one output section %s\n%s" % (name, secs))
    with open(exe + ".syms", "w") as f:
        f.write(run(["nm", "-n", "--defined-only", exe]))
    # what the library objects import (DESIGN.md §1 inventory, re-derived on every build)
    with open(os.path.join(outdir, "imports.txt"), "w") as f:
        f.write("\n".join(sorted(set(l.split()[-1] for l in run(["nm", "-u", lib_sim]).split("\n") if l.strip()))))
    return exe, time.time() - t0


if __name__ == "__main__":
    v = sys.argv[1] if len(sys.argv) > 1 else "sim"
    out = sys.argv[2] if len(sys.argv) > 2 else os.path.join(VERIF, "build", v)
    try:
        exe, dt = build(v, out)
    except BuildError as e:
        print(str(e))
        sys.exit(2)
    print("built %s in %.1fs" % (exe, dt))
