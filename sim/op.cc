#include "op.h"

#include <errno.h>

#include "constmem.h"

#include <algorithm>

// ------------------------------------------------------------- helpers ----
static const char *ERR_NAMES[] = {
    "E_SUCCESS",        "E_FAILED",          "E_DOMAIN",
    "E_LATLNG_DOMAIN",  "E_RES_DOMAIN",      "E_CELL_INVALID",
    "E_DIR_EDGE_INVALID", "E_UNDIR_EDGE_INVALID", "E_VERTEX_INVALID",
    "E_PENTAGON",       "E_DUPLICATE_INPUT", "E_NOT_NEIGHBORS",
    "E_RES_MISMATCH",   "E_MEMORY_ALLOC",    "E_MEMORY_BOUNDS",
    "E_OPTION_INVALID"};
const char *h3ErrorName(int64_t rc) {
    if (rc >= 0 && rc < 16) return ERR_NAMES[rc];
    return "E_?";
}

bool fnIsC17(int fn) {
    switch (fn) {
        case FN_compactCells:
        case FN_gridDisk:
        case FN_gridDiskDistances:
        case FN_areNeighborCells:
        case FN_polygonToCells:
        case FN_polygonToCellsExperimental:
        case FN_maxPolygonToCellsSizeExperimental:
            return true;
    }
    return false;
}
bool fnAllocates(int fn) {
    return fnIsC17(fn) || fn == FN_cellsToLinkedMultiPolygon;
}

static std::string cellHex(uint64_t c) {
    char b[24];
    snprintf(b, sizeof b, "%llx", (unsigned long long)c);
    return b;
}

JP Op::toJson(bool withFault) const {
    JP j = JVal::obj();
    j->set("fn", FN_NAMES[fn]);
    if (!tag.empty()) j->set("tag", tag);
    if (!cells.empty()) {
        JP a = JVal::arr();
        for (auto c : cells) a->push(JVal::str(cellHex(c)));
        j->set("cells", a);
    }
    if (!ints.empty()) {
        JP a = JVal::arr();
        for (auto v : ints) a->push(JVal::integer(v));
        j->set("ints", a);
    }
    if (!dbls.empty()) {
        JP a = JVal::arr();
        for (auto v : dbls) a->push(JVal::number(v));
        j->set("dbls", a);
    }
    if (!loops.empty()) {
        JP a = JVal::arr();
        for (auto &l : loops) {
            JP la = JVal::arr();
            for (auto &v : l) {
                JP p = JVal::arr();
                p->push(JVal::number(v.lat));
                p->push(JVal::number(v.lng));
                la->push(p);
            }
            a->push(la);
        }
        j->set("loops_rad", a);
    }
    if (!str.empty() || fn == FN_stringToH3) j->set("str", str);
    if (share) j->set("share", share);
    if (withFault && fault.kind != F_NONE) j->set("fault", fault.toJson());
    return j;
}

Op Op::fromJson(const JVal &j) {
    Op o;
    o.fn = fnByName(j.gets("fn").c_str());
    if (o.fn < 0) o.fn = 0;
    o.tag = j.gets("tag");
    if (JP a = j.get("cells"))
        for (auto &e : a->a) o.cells.push_back(strtoull(e->s.c_str(), 0, 16));
    if (JP a = j.get("ints"))
        for (auto &e : a->a)
            o.ints.push_back(e->isInt ? e->inum : (int64_t)e->num);
    if (JP a = j.get("dbls"))
        for (auto &e : a->a) o.dbls.push_back(e->asDouble());
    if (JP a = j.get("loops_rad"))
        for (auto &l : a->a) {
            std::vector<LatLng> loop;
            for (auto &p : l->a) {
                LatLng g;
                g.lat = p->a.size() > 0 ? p->a[0]->asDouble() : 0;
                g.lng = p->a.size() > 1 ? p->a[1]->asDouble() : 0;
                loop.push_back(g);
            }
            o.loops.push_back(loop);
        }
    o.str = j.gets("str");
    o.share = (int)j.geti("share", 0);
    if (JP f = j.get("fault")) o.fault = FaultPlan::fromJson(*f);
    return o;
}

uint64_t Op::hash() const {
    Chain c;
    c.add((uint64_t)fn);
    for (auto v : cells) c.add(v);
    c.add(0x11);
    for (auto v : ints) c.add((uint64_t)v);
    c.add(0x22);
    for (auto v : dbls) {
        uint64_t b;
        memcpy(&b, &v, 8);
        c.add(b);
    }
    c.add(0x33);
    for (auto &l : loops) {
        c.add(l.size());
        for (auto &v : l) {
            uint64_t b;
            memcpy(&b, &v.lat, 8);
            c.add(b);
            memcpy(&b, &v.lng, 8);
            c.add(b);
        }
    }
    c.addBytes(str.data(), str.size());
    return c.h;
}

std::string Op::brief() const {
    std::string s = FN_NAMES[fn];
    s += "(";
    if (!cells.empty()) {
        s += cellHex(cells[0]);
        if (cells.size() > 1) s += ",..x" + std::to_string(cells.size());
    }
    for (auto v : ints) s += " " + std::to_string(v);
    if (!loops.empty()) {
        s += " poly[" + std::to_string(loops[0].size()) + "v," +
             std::to_string(loops.size() - 1) + "h]";
    }
    s += ")";
    if (!tag.empty()) s += "#" + tag;
    return s;
}

uint64_t Result::digest() const {
    Chain c;
    c.add((uint64_t)status);
    c.add((uint64_t)rc);
    c.add(skipped);
    c.addBytes(out.data(), out.size());
    return c.h;
}
std::string Result::brief() const {
    char b[128];
    if (status == CALL_CRASHED)
        snprintf(b, sizeof b, "CRASH(sig %d)", sig);
    else if (status == CALL_HUNG)
        snprintf(b, sizeof b, "HANG");
    else if (skipped)
        snprintf(b, sizeof b, "skipped");
    else if (rcIsError)
        snprintf(b, sizeof b, "%s out=%zuB/%016llx", h3ErrorName(rc),
                 out.size(), (unsigned long long)hashBytes(out.data(), out.size()));
    else
        snprintf(b, sizeof b, "ret=%lld out=%zuB", (long long)rc, out.size());
    return b;
}

namespace {
const size_t GUARD = 128;
const uint8_t GUARD_BYTE = 0xC3;

struct GuardBuf {
    uint8_t *base = nullptr;
    size_t n = 0;
    GuardBuf() {}
    explicit GuardBuf(size_t bytes, uint8_t fill = 0) { init(bytes, fill); }
    void init(size_t bytes, uint8_t fill = 0) {
        n = bytes;
        base = (uint8_t *)malloc(bytes + 2 * GUARD);
        if (!base) {
            fprintf(stderr, "harness: out of memory (%zu)\n", bytes);
            exit(3);
        }
        memset(base, GUARD_BYTE, GUARD);
        memset(base + GUARD, fill, bytes);
        memset(base + GUARD + bytes, GUARD_BYTE, GUARD);
    }
    // like init(), but in the calling thread's const-input slab (constmem.h) when one is available; such a
    // buffer is made read-only while the library runs and is released with the slab, not with free()
    bool fromConst = false;
    void initConst(size_t bytes, bool want) {
        void *m = want ? constAlloc(bytes + 2 * GUARD) : nullptr;
        if (!m) {
            init(bytes);
            return;
        }
        fromConst = true;
        n = bytes;
        base = (uint8_t *)m;
        memset(base, GUARD_BYTE, GUARD);
        memset(base + GUARD, 0, bytes);
        memset(base + GUARD + bytes, GUARD_BYTE, GUARD);
    }
    // output buffer: ends at an inaccessible page (constmem.h outAlloc); leading guard bytes as usual, the
    // (at most 15) slack bytes before the fence page are guard bytes too
    size_t tail = GUARD;
    void initOut(size_t bytes, uint8_t fill = 0) {
        size_t slack = 0;
        void *m = outAlloc(bytes + GUARD, &slack);
        if (!m) {
            init(bytes, fill);
            return;
        }
        fromConst = true;  // not from malloc
        n = bytes;
        base = (uint8_t *)m;
        tail = slack;
        memset(base, GUARD_BYTE, GUARD);
        memset(base + GUARD, fill, bytes);
        memset(base + GUARD + bytes, GUARD_BYTE, tail);
    }
    ~GuardBuf() {
        if (!fromConst) free(base);
    }
    GuardBuf(const GuardBuf &) = delete;
    GuardBuf &operator=(const GuardBuf &) = delete;
    void *p() const { return base ? base + GUARD : nullptr; }
    template <class T>
    T *as() const {
        return (T *)p();
    }
    bool ok() const {
        if (!base) return true;
        for (size_t i = 0; i < GUARD; i++)
            if (base[i] != GUARD_BYTE) return false;
        for (size_t i = 0; i < tail; i++)
            if (base[GUARD + n + i] != GUARD_BYTE) return false;
        return true;
    }
};

inline void put64(std::vector<uint8_t> &o, uint64_t v) {
    uint8_t b[8];
    memcpy(b, &v, 8);
    o.insert(o.end(), b, b + 8);
}
inline void putd(std::vector<uint8_t> &o, double d) {
    uint64_t v;
    memcpy(&v, &d, 8);
    put64(o, v);
}
inline void putBytes(std::vector<uint8_t> &o, const void *p, size_t n) {
    const uint8_t *b = (const uint8_t *)p;
    o.insert(o.end(), b, b + n);
}
void putBoundary(std::vector<uint8_t> &o, const CellBoundary *cb) {
    int n = cb->numVerts;
    put64(o, (uint64_t)(int64_t)n);
    if (n < 0) n = 0;
    if (n > MAX_CELL_BNDRY_VERTS) n = MAX_CELL_BNDRY_VERTS;
    for (int i = 0; i < n; i++) {
        putd(o, cb->verts[i].lat);
        putd(o, cb->verts[i].lng);
    }
}

struct CallCtx {
    const H3Api *api;
    const ExecOpts *opts;
    int fn;
    H3Index c0 = 0, c1 = 0;
    int i0 = 0, i1 = 0, i2 = 0;
    int64_t l0 = 0, l1 = 0;
    uint32_t u0 = 0;
    double d[4] = {0, 0, 0, 0};
    void *b0 = nullptr, *b1 = nullptr;  // caller-owned output buffers
    const void *in0 = nullptr;          // caller-owned input array
    LatLng *pg = nullptr;               // two LatLng inputs (in the const slab when inputs are sealed)
    CoordIJ *pij = nullptr;
    GeoPolygon *poly = nullptr;
    const char *s = nullptr;
    size_t sz = 0;
    int64_t rc = 0;
    double dret = 0;
    const char *sret = nullptr;
    std::vector<uint8_t> *out = nullptr;
    bool leftover = false;
};

// walk a linked multipolygon; bounded, so corrupted lists cannot spin forever
void serialiseLinked(const LinkedGeoPolygon *root, std::vector<uint8_t> &o) {
    int64_t budget = 20000000;
    for (const LinkedGeoPolygon *p = root; p && budget > 0; p = p->next) {
        put64(o, 0x504F4C59ULL);  // "POLY"
        for (const LinkedGeoLoop *l = p->first; l && budget > 0; l = l->next) {
            put64(o, 0x4C4F4F50ULL);  // "LOOP"
            for (const LinkedLatLng *c = l->first; c && budget > 0;
                 c = c->next, budget--) {
                putd(o, c->vertex.lat);
                putd(o, c->vertex.lng);
            }
        }
    }
    if (budget <= 0) put64(o, 0xDEADULL);
}

}  // namespace
int entryErrnoFor(uint64_t h) {
    static const int E[] = {0, ERANGE, EDOM, EINTR, ENOMEM, EINVAL, ERANGE, 9999};
    return E[mix2(h, 0xE44A0ULL) % (sizeof E / sizeof E[0])];
}
namespace {
void doCall(void *vp) {
    CallCtx &c = *(CallCtx *)vp;
    const H3Api &A = *c.api;
    LatLng gl[2] = {{c.d[0], c.d[1]}, {c.d[2], c.d[3]}};
    const LatLng &g0 = c.pg ? c.pg[0] : gl[0], &g1 = c.pg ? c.pg[1] : gl[1];
    errno = c.opts ? c.opts->entryErrno : 0;
    switch (c.fn) {
        case FN_describeH3Error:
            c.sret = A.describeH3Error((H3Error)c.u0);
            break;
        case FN_latLngToCell:
            c.rc = A.latLngToCell(&g0, c.i0, (H3Index *)c.b0);
            break;
        case FN_cellToLatLng:
            c.rc = A.cellToLatLng(c.c0, (LatLng *)c.b0);
            break;
        case FN_cellToBoundary:
            c.rc = A.cellToBoundary(c.c0, (CellBoundary *)c.b0);
            break;
        case FN_maxGridDiskSize:
            c.rc = A.maxGridDiskSize(c.i0, (int64_t *)c.b0);
            break;
        case FN_gridDiskUnsafe:
            c.rc = A.gridDiskUnsafe(c.c0, c.i0, (H3Index *)c.b0);
            break;
        case FN_gridDiskDistancesUnsafe:
            c.rc = A.gridDiskDistancesUnsafe(c.c0, c.i0, (H3Index *)c.b0,
                                             (int *)c.b1);
            break;
        case FN_gridDiskDistancesSafe:
            c.rc = A.gridDiskDistancesSafe(c.c0, c.i0, (H3Index *)c.b0,
                                           (int *)c.b1);
            break;
        case FN_gridDisksUnsafe:
            c.rc = A.gridDisksUnsafe((H3Index *)c.in0, c.i1, c.i0,
                                     (H3Index *)c.b0);
            break;
        case FN_gridDisk:
            c.rc = A.gridDisk(c.c0, c.i0, (H3Index *)c.b0);
            break;
        case FN_gridDiskDistances:
            c.rc = A.gridDiskDistances(c.c0, c.i0, (H3Index *)c.b0,
                                       (int *)c.b1);
            break;
        case FN_gridRingUnsafe:
            c.rc = A.gridRingUnsafe(c.c0, c.i0, (H3Index *)c.b0);
            break;
        case FN_maxPolygonToCellsSize:
            c.rc = A.maxPolygonToCellsSize(c.poly, c.i0, c.u0,
                                           (int64_t *)c.b0);
            break;
        case FN_polygonToCells:
            c.rc = A.polygonToCells(c.poly, c.i0, c.u0, (H3Index *)c.b0);
            break;
        case FN_maxPolygonToCellsSizeExperimental:
            c.rc = A.maxPolygonToCellsSizeExperimental(c.poly, c.i0, c.u0,
                                                       (int64_t *)c.b0);
            break;
        case FN_polygonToCellsExperimental:
            c.rc = A.polygonToCellsExperimental(c.poly, c.i0, c.u0, c.l0,
                                                (H3Index *)c.b0);
            break;
        case FN_cellsToLinkedMultiPolygon: {
            LinkedGeoPolygon *lg = (LinkedGeoPolygon *)c.b0;
            c.rc = A.cellsToLinkedMultiPolygon((const H3Index *)c.in0, c.i0, lg);
            if (c.rc == E_SUCCESS) {
                serialiseLinked(lg, *c.out);
                if (c.opts->afterLinked) c.opts->afterLinked(c.rc, c.opts->user);
                if (c.opts->destroyLinked) A.destroyLinkedMultiPolygon(lg);
            } else {
                if (c.opts->afterLinked) c.opts->afterLinked(c.rc, c.opts->user);
            }
            break;
        }
        case FN_destroyLinkedMultiPolygon:
            break;  // only as part of cellsToLinkedMultiPolygon
        case FN_degsToRads:
            c.dret = A.degsToRads(c.d[0]);
            break;
        case FN_radsToDegs:
            c.dret = A.radsToDegs(c.d[0]);
            break;
        case FN_greatCircleDistanceRads:
            c.dret = A.greatCircleDistanceRads(&g0, &g1);
            break;
        case FN_greatCircleDistanceKm:
            c.dret = A.greatCircleDistanceKm(&g0, &g1);
            break;
        case FN_greatCircleDistanceM:
            c.dret = A.greatCircleDistanceM(&g0, &g1);
            break;
        case FN_getHexagonAreaAvgKm2:
            c.rc = A.getHexagonAreaAvgKm2(c.i0, (double *)c.b0);
            break;
        case FN_getHexagonAreaAvgM2:
            c.rc = A.getHexagonAreaAvgM2(c.i0, (double *)c.b0);
            break;
        case FN_cellAreaRads2:
            c.rc = A.cellAreaRads2(c.c0, (double *)c.b0);
            break;
        case FN_cellAreaKm2:
            c.rc = A.cellAreaKm2(c.c0, (double *)c.b0);
            break;
        case FN_cellAreaM2:
            c.rc = A.cellAreaM2(c.c0, (double *)c.b0);
            break;
        case FN_getHexagonEdgeLengthAvgKm:
            c.rc = A.getHexagonEdgeLengthAvgKm(c.i0, (double *)c.b0);
            break;
        case FN_getHexagonEdgeLengthAvgM:
            c.rc = A.getHexagonEdgeLengthAvgM(c.i0, (double *)c.b0);
            break;
        case FN_edgeLengthRads:
            c.rc = A.edgeLengthRads(c.c0, (double *)c.b0);
            break;
        case FN_edgeLengthKm:
            c.rc = A.edgeLengthKm(c.c0, (double *)c.b0);
            break;
        case FN_edgeLengthM:
            c.rc = A.edgeLengthM(c.c0, (double *)c.b0);
            break;
        case FN_getNumCells:
            c.rc = A.getNumCells(c.i0, (int64_t *)c.b0);
            break;
        case FN_res0CellCount:
            c.rc = A.res0CellCount();
            break;
        case FN_getRes0Cells:
            c.rc = A.getRes0Cells((H3Index *)c.b0);
            break;
        case FN_pentagonCount:
            c.rc = A.pentagonCount();
            break;
        case FN_getPentagons:
            c.rc = A.getPentagons(c.i0, (H3Index *)c.b0);
            break;
        case FN_getResolution:
            c.rc = A.getResolution(c.c0);
            break;
        case FN_getBaseCellNumber:
            c.rc = A.getBaseCellNumber(c.c0);
            break;
        case FN_stringToH3:
            c.rc = A.stringToH3(c.s, (H3Index *)c.b0);
            break;
        case FN_h3ToString:
            c.rc = A.h3ToString(c.c0, (char *)c.b0, c.sz);
            break;
        case FN_isValidCell:
            c.rc = A.isValidCell(c.c0);
            break;
        case FN_cellToParent:
            c.rc = A.cellToParent(c.c0, c.i0, (H3Index *)c.b0);
            break;
        case FN_cellToChildrenSize:
            c.rc = A.cellToChildrenSize(c.c0, c.i0, (int64_t *)c.b0);
            break;
        case FN_cellToChildren:
            c.rc = A.cellToChildren(c.c0, c.i0, (H3Index *)c.b0);
            break;
        case FN_cellToCenterChild:
            c.rc = A.cellToCenterChild(c.c0, c.i0, (H3Index *)c.b0);
            break;
        case FN_cellToChildPos:
            c.rc = A.cellToChildPos(c.c0, c.i0, (int64_t *)c.b0);
            break;
        case FN_childPosToCell:
            c.rc = A.childPosToCell(c.l0, c.c0, c.i0, (H3Index *)c.b0);
            break;
        case FN_compactCells:
            c.rc = A.compactCells((const H3Index *)c.in0, (H3Index *)c.b0, c.l0);
            break;
        case FN_uncompactCellsSize:
            c.rc = A.uncompactCellsSize((const H3Index *)c.in0, c.l0, c.i0,
                                        (int64_t *)c.b0);
            break;
        case FN_uncompactCells:
            c.rc = A.uncompactCells((const H3Index *)c.in0, c.l0,
                                    (H3Index *)c.b0, c.l1, c.i0);
            break;
        case FN_isResClassIII:
            c.rc = A.isResClassIII(c.c0);
            break;
        case FN_isPentagon:
            c.rc = A.isPentagon(c.c0);
            break;
        case FN_maxFaceCount:
            c.rc = A.maxFaceCount(c.c0, (int *)c.b0);
            break;
        case FN_getIcosahedronFaces:
            c.rc = A.getIcosahedronFaces(c.c0, (int *)c.b0);
            break;
        case FN_areNeighborCells:
            c.rc = A.areNeighborCells(c.c0, c.c1, (int *)c.b0);
            break;
        case FN_cellsToDirectedEdge:
            c.rc = A.cellsToDirectedEdge(c.c0, c.c1, (H3Index *)c.b0);
            break;
        case FN_isValidDirectedEdge:
            c.rc = A.isValidDirectedEdge(c.c0);
            break;
        case FN_getDirectedEdgeOrigin:
            c.rc = A.getDirectedEdgeOrigin(c.c0, (H3Index *)c.b0);
            break;
        case FN_getDirectedEdgeDestination:
            c.rc = A.getDirectedEdgeDestination(c.c0, (H3Index *)c.b0);
            break;
        case FN_directedEdgeToCells:
            c.rc = A.directedEdgeToCells(c.c0, (H3Index *)c.b0);
            break;
        case FN_originToDirectedEdges:
            c.rc = A.originToDirectedEdges(c.c0, (H3Index *)c.b0);
            break;
        case FN_directedEdgeToBoundary:
            c.rc = A.directedEdgeToBoundary(c.c0, (CellBoundary *)c.b0);
            break;
        case FN_cellToVertex:
            c.rc = A.cellToVertex(c.c0, c.i0, (H3Index *)c.b0);
            break;
        case FN_cellToVertexes:
            c.rc = A.cellToVertexes(c.c0, (H3Index *)c.b0);
            break;
        case FN_vertexToLatLng:
            c.rc = A.vertexToLatLng(c.c0, (LatLng *)c.b0);
            break;
        case FN_isValidVertex:
            c.rc = A.isValidVertex(c.c0);
            break;
        case FN_gridDistance:
            c.rc = A.gridDistance(c.c0, c.c1, (int64_t *)c.b0);
            break;
        case FN_gridPathCellsSize:
            c.rc = A.gridPathCellsSize(c.c0, c.c1, (int64_t *)c.b0);
            break;
        case FN_gridPathCells:
            c.rc = A.gridPathCells(c.c0, c.c1, (H3Index *)c.b0);
            break;
        case FN_cellToLocalIj:
            c.rc = A.cellToLocalIj(c.c0, c.c1, c.u0, (CoordIJ *)c.b0);
            break;
        case FN_localIjToCell: {
            CoordIJ ijLocal = {c.i0, c.i1};
            const CoordIJ &ij = c.pij ? *c.pij : ijLocal;
            c.rc = A.localIjToCell(c.c0, &ij, c.u0, (H3Index *)c.b0);
            break;
        }
        default:
            break;
    }
}

inline int64_t argI(const Op &op, size_t i, int64_t d = 0) {
    return i < op.ints.size() ? op.ints[i] : d;
}
inline uint64_t argC(const Op &op, size_t i) {
    return i < op.cells.size() ? op.cells[i] : 0;
}
inline double argD(const Op &op, size_t i) {
    return i < op.dbls.size() ? op.dbls[i] : 0.0;
}
inline int clampInt(int64_t v) {
    if (v > 2147483647LL) return 2147483647;
    if (v < -2147483647LL - 1) return (int)(-2147483647LL - 1);
    return (int)v;
}
const int64_t MAX_OUT_ELEMS = 4000000;  // harness bound on any output array
}  // namespace

Result execOp(const H3Api &api, const Op &op, const ExecOpts &opts) {
    Result R;
    CallCtx c;
    c.api = &api;
    c.opts = &opts;
    c.fn = op.fn;
    c.out = &R.out;
    GuardBuf B0, B1, IN0;
    // const inputs go into the calling thread's const slab when requested (read-only while the library runs)
    const bool seal = opts.sealInputs && constMemAvailable();
    // polygon argument, built in caller-owned (guarded) memory
    GeoPolygon gpLocal;
    GeoPolygon *gpp = seal ? (GeoPolygon *)constAlloc(sizeof(GeoPolygon)) : nullptr;
    if (!gpp) gpp = &gpLocal;
    GeoPolygon &gp = *gpp;
    std::vector<GuardBuf *> loopBufs;
    GuardBuf holesBuf, strBuf;
    if (seal) {
        c.pg = (LatLng *)constAlloc(2 * sizeof(LatLng));
        if (c.pg) {
            c.pg[0].lat = argD(op, 0);
            c.pg[0].lng = argD(op, 1);
            c.pg[1].lat = argD(op, 2);
            c.pg[1].lng = argD(op, 3);
        }
    }
    auto buildPoly = [&]() {
        if (opts.shared && opts.shared->poly) {
            c.poly = opts.shared->poly;
            return;
        }
        memset(&gp, 0, sizeof gp);
        for (size_t i = 0; i < op.loops.size(); i++) {
            GuardBuf *b = new GuardBuf();
            b->initConst(op.loops[i].size() * sizeof(LatLng) + 8, seal);
            if (!op.loops[i].empty())
                memcpy(b->p(), op.loops[i].data(),
                       op.loops[i].size() * sizeof(LatLng));
            loopBufs.push_back(b);
        }
        if (!op.loops.empty()) {
            gp.geoloop.numVerts = (int)op.loops[0].size();
            gp.geoloop.verts = loopBufs[0]->as<LatLng>();
        }
        size_t nh = op.loops.size() > 1 ? op.loops.size() - 1 : 0;
        gp.numHoles = (int)nh;
        holesBuf.initConst(nh * sizeof(GeoLoop) + 8, seal);
        GeoLoop *hs = holesBuf.as<GeoLoop>();
        for (size_t i = 0; i < nh; i++) {
            hs[i].numVerts = (int)op.loops[i + 1].size();
            hs[i].verts = loopBufs[i + 1]->as<LatLng>();
        }
        gp.holes = nh ? hs : nullptr;
        c.poly = &gp;
    };
    auto setInCells = [&]() {
        if (opts.shared && opts.shared->cells) {
            c.in0 = opts.shared->cells;
            return;
        }
        // gridDisksUnsafe takes its input set through a non-const pointer: never sealed
        IN0.initConst(op.cells.size() * sizeof(H3Index) + 8, seal && op.fn != FN_gridDisksUnsafe);
        if (!op.cells.empty())
            memcpy(IN0.p(), op.cells.data(), op.cells.size() * sizeof(H3Index));
        c.in0 = IN0.p();
    };
    c.c0 = argC(op, 0);
    c.c1 = argC(op, 1);
    size_t n0 = 0, n1 = 0;  // element counts for serialisation
    bool skip = false;
    R.rcIsError = true;
    switch (op.fn) {
        case FN_describeH3Error:
            c.u0 = (uint32_t)argI(op, 0);
            R.rcIsError = false;
            break;
        case FN_latLngToCell:
            c.d[0] = argD(op, 0);
            c.d[1] = argD(op, 1);
            c.i0 = clampInt(argI(op, 0));
            B0.initOut(8);
            break;
        case FN_cellToLatLng:
        case FN_vertexToLatLng:
            B0.initOut(sizeof(LatLng));
            break;
        case FN_cellToBoundary:
        case FN_directedEdgeToBoundary:
            B0.initOut(sizeof(CellBoundary));
            break;
        case FN_maxGridDiskSize:
        case FN_getNumCells:
            c.i0 = clampInt(argI(op, 0));
            B0.initOut(8);
            break;
        case FN_gridDiskUnsafe:
        case FN_gridDisk:
        case FN_gridDiskDistancesUnsafe:
        case FN_gridDiskDistancesSafe:
        case FN_gridDiskDistances: {
            c.i0 = clampInt(argI(op, 0));
            int64_t sz = 0;
            if (REF.maxGridDiskSize(c.i0, &sz) != E_SUCCESS) sz = 1;
            if (sz > MAX_OUT_ELEMS) {
                skip = true;
                break;
            }
            n0 = (size_t)sz;
            B0.initOut(n0 * sizeof(H3Index));
            bool withDist = argI(op, 1, 0) != 0 ||
                            op.fn == FN_gridDiskDistancesSafe;
            if (op.fn != FN_gridDiskUnsafe && op.fn != FN_gridDisk && withDist) {
                n1 = n0;
                B1.initOut(n1 * sizeof(int));
            }
            break;
        }
        case FN_gridRingUnsafe: {
            c.i0 = clampInt(argI(op, 0));
            int64_t sz = c.i0 > 0 ? 6 * (int64_t)c.i0 : 1;
            if (sz > MAX_OUT_ELEMS) {
                skip = true;
                break;
            }
            n0 = (size_t)sz;
            B0.initOut(n0 * sizeof(H3Index));
            break;
        }
        case FN_gridDisksUnsafe: {
            c.i0 = clampInt(argI(op, 0));
            c.i1 = (int)op.cells.size();
            int64_t sz = 0;
            if (REF.maxGridDiskSize(c.i0, &sz) != E_SUCCESS) sz = 1;
            if (sz * (int64_t)(op.cells.size() + 1) > MAX_OUT_ELEMS) {
                skip = true;
                break;
            }
            setInCells();
            n0 = (size_t)sz * std::max<size_t>(op.cells.size(), 1);
            B0.initOut(n0 * sizeof(H3Index));
            break;
        }
        case FN_maxPolygonToCellsSize:
        case FN_maxPolygonToCellsSizeExperimental:
            buildPoly();
            c.i0 = clampInt(argI(op, 0));
            c.u0 = (uint32_t)argI(op, 1);
            B0.initOut(8);
            break;
        case FN_polygonToCells: {
            buildPoly();
            c.i0 = clampInt(argI(op, 0));
            c.u0 = (uint32_t)argI(op, 1);
            int64_t sz = 0;
            if (REF.maxPolygonToCellsSize(c.poly, c.i0, c.u0, &sz) != E_SUCCESS ||
                sz < 1)
                sz = 1;
            if (sz > MAX_OUT_ELEMS) {
                skip = true;
                break;
            }
            n0 = (size_t)sz;
            B0.initOut(n0 * sizeof(H3Index));
            if (int64_t dirty = argI(op, 2, 0)) {
                // caller passes an output array that is not zero-filled (see gen.cc "+dirty-out")
                H3Index *o = B0.as<H3Index>();
                for (size_t i = 0; i < n0; i++)
                    if (dirty == 1 || (i & 1)) o[i] = 0x8001fffffffffffULL + (i << 8);
            }
            break;
        }
        case FN_polygonToCellsExperimental: {
            buildPoly();
            c.i0 = clampInt(argI(op, 0));
            c.u0 = (uint32_t)argI(op, 1);
            c.l0 = argI(op, 2);
            if (c.l0 > MAX_OUT_ELEMS) {
                skip = true;
                break;
            }
            n0 = c.l0 > 0 ? (size_t)c.l0 : 0;
            B0.initOut(n0 * sizeof(H3Index) + 8);
            break;
        }
        case FN_cellsToLinkedMultiPolygon:
            setInCells();
            c.i0 = (int)op.cells.size();
            B0.initOut(sizeof(LinkedGeoPolygon));
            R.out.reserve(4096);
            break;
        case FN_destroyLinkedMultiPolygon:
            skip = true;
            break;
        case FN_degsToRads:
        case FN_radsToDegs:
            c.d[0] = argD(op, 0);
            R.rcIsError = false;
            break;
        case FN_greatCircleDistanceRads:
        case FN_greatCircleDistanceKm:
        case FN_greatCircleDistanceM:
            for (int i = 0; i < 4; i++) c.d[i] = argD(op, i);
            R.rcIsError = false;
            break;
        case FN_getHexagonAreaAvgKm2:
        case FN_getHexagonAreaAvgM2:
        case FN_getHexagonEdgeLengthAvgKm:
        case FN_getHexagonEdgeLengthAvgM:
            c.i0 = clampInt(argI(op, 0));
            B0.initOut(8);
            break;
        case FN_cellAreaRads2:
        case FN_cellAreaKm2:
        case FN_cellAreaM2:
        case FN_edgeLengthRads:
        case FN_edgeLengthKm:
        case FN_edgeLengthM:
            B0.initOut(8);
            break;
        case FN_res0CellCount:
        case FN_pentagonCount:
        case FN_getResolution:
        case FN_getBaseCellNumber:
        case FN_isValidCell:
        case FN_isResClassIII:
        case FN_isPentagon:
        case FN_isValidDirectedEdge:
        case FN_isValidVertex:
            R.rcIsError = false;
            break;
        case FN_getRes0Cells:
            n0 = 122;
            B0.initOut(n0 * 8);
            break;
        case FN_getPentagons:
            c.i0 = clampInt(argI(op, 0));
            n0 = 12;
            B0.initOut(n0 * 8);
            break;
        case FN_stringToH3:
            c.s = op.str.c_str();
            if (seal) {
                strBuf.initConst(op.str.size() + 1, true);
                memcpy(strBuf.p(), op.str.c_str(), op.str.size() + 1);
                c.s = strBuf.as<char>();
            }
            B0.initOut(8);
            break;
        case FN_h3ToString: {
            int64_t sz = argI(op, 0, 17);
            if (sz < 0) sz = 0;
            if (sz > 4096) sz = 4096;
            c.sz = (size_t)sz;
            B0.initOut(c.sz + 1, 0x7e);
            break;
        }
        case FN_cellToParent:
        case FN_cellToCenterChild:
        case FN_cellToChildrenSize:
        case FN_cellToChildPos:
            c.i0 = clampInt(argI(op, 0));
            B0.initOut(8);
            break;
        case FN_cellToChildren: {
            c.i0 = clampInt(argI(op, 0));
            int64_t sz = 0;
            if (REF.cellToChildrenSize(c.c0, c.i0, &sz) != E_SUCCESS) {
                skip = true;  // no defined buffer size for this call
                break;
            }
            if (sz > MAX_OUT_ELEMS) {
                skip = true;
                break;
            }
            n0 = (size_t)sz;
            B0.initOut(n0 * 8 + 8);
            break;
        }
        case FN_childPosToCell:
            c.l0 = argI(op, 0);
            c.i0 = clampInt(argI(op, 1));
            B0.initOut(8);
            break;
        case FN_compactCells:
            setInCells();
            c.l0 = (int64_t)op.cells.size();
            n0 = op.cells.size();
            B0.initOut(n0 * 8 + 8);
            break;
        case FN_uncompactCellsSize:
            setInCells();
            c.l0 = (int64_t)op.cells.size();
            c.i0 = clampInt(argI(op, 0));
            B0.initOut(8);
            break;
        case FN_uncompactCells: {
            setInCells();
            c.l0 = (int64_t)op.cells.size();
            c.i0 = clampInt(argI(op, 0));
            c.l1 = argI(op, 1);
            if (c.l1 < 0 || c.l1 > MAX_OUT_ELEMS) {
                skip = true;
                break;
            }
            n0 = (size_t)c.l1;
            B0.initOut(n0 * 8 + 8);
            break;
        }
        case FN_maxFaceCount:
            B0.initOut(sizeof(int));
            break;
        case FN_getIcosahedronFaces: {
            int mf = 0;
            if (REF.maxFaceCount(c.c0, &mf) != E_SUCCESS || mf < 1 || mf > 20)
                mf = 5;
            n0 = (size_t)mf;
            B0.initOut(n0 * sizeof(int));
            break;
        }
        case FN_areNeighborCells:
            B0.initOut(sizeof(int));
            break;
        case FN_cellsToDirectedEdge:
        case FN_getDirectedEdgeOrigin:
        case FN_getDirectedEdgeDestination:
            B0.initOut(8);
            break;
        case FN_directedEdgeToCells:
            n0 = 2;
            B0.initOut(16);
            break;
        case FN_originToDirectedEdges:
        case FN_cellToVertexes:
            n0 = 6;
            B0.initOut(48);
            break;
        case FN_cellToVertex:
            c.i0 = clampInt(argI(op, 0));
            B0.initOut(8);
            break;
        case FN_gridDistance:
        case FN_gridPathCellsSize:
            B0.initOut(8);
            break;
        case FN_gridPathCells: {
            int64_t sz = 0;
            if (REF.gridPathCellsSize(c.c0, c.c1, &sz) != E_SUCCESS || sz < 1)
                sz = 1;
            if (sz > MAX_OUT_ELEMS) {
                skip = true;
                break;
            }
            n0 = (size_t)sz;
            B0.initOut(n0 * 8);
            break;
        }
        case FN_cellToLocalIj:
            c.u0 = (uint32_t)argI(op, 0);
            B0.initOut(sizeof(CoordIJ));
            break;
        case FN_localIjToCell:
            c.i0 = clampInt(argI(op, 0));
            c.i1 = clampInt(argI(op, 1));
            c.u0 = (uint32_t)argI(op, 2);
            B0.initOut(8);
            break;
        default:
            skip = true;
    }
    if (skip) {
        R.skipped = true;
        for (auto *b : loopBufs) delete b;
        if (seal) constUnsealOp();
        outReleaseOp();
        return R;
    }
    c.b0 = B0.p();
    c.b1 = B1.p();

    if (seal && op.fn == FN_localIjToCell) {
        c.pij = (CoordIJ *)constAlloc(sizeof(CoordIJ));
        if (c.pij) {
            c.pij->i = c.i0;
            c.pij->j = c.i1;
        }
    }
    if (seal) constSealOp();
    Contained ct = runContained(doCall, &c, opts.wallLimitSec);
    if (seal) {
        for (auto &w : constTakeWrites()) {
            R.constStores++;
            if (w.changed) {
                if (!R.constChanged) {
                    R.constFirstOffset = w.offset;
                    R.constFirstStep = w.step;
                    R.constFirstShared = w.shared;
                }
                R.constChanged++;
            }
        }
    }
    R.status = ct.status;
    R.sig = ct.sig;
    R.rc = c.rc;

    if (ct.status == CALL_RETURNED) {
        R.guardsOk = B0.ok() && B1.ok() && IN0.ok() && holesBuf.ok();
        for (auto *b : loopBufs) R.guardsOk = R.guardsOk && b->ok();
        // inputs must not have been modified (they are const in the API; for
        // gridDisksUnsafe the pointer is non-const but documented as input)
        if (c.in0 && !op.cells.empty() &&
            memcmp(c.in0, op.cells.data(), op.cells.size() * 8) != 0)
            R.guardsOk = false;
        if (opts.shared && opts.shared->poly) {
            const GeoPolygon *sp = opts.shared->poly;
            if (!op.loops.empty() && !op.loops[0].empty() &&
                memcmp(sp->geoloop.verts, op.loops[0].data(),
                       op.loops[0].size() * sizeof(LatLng)) != 0)
                R.guardsOk = false;
            for (size_t i = 1; i < op.loops.size(); i++)
                if (!op.loops[i].empty() &&
                    memcmp(sp->holes[i - 1].verts, op.loops[i].data(),
                           op.loops[i].size() * sizeof(LatLng)) != 0)
                    R.guardsOk = false;
        }
        for (size_t i = 0; i < loopBufs.size(); i++)
            if (!op.loops[i].empty() &&
                memcmp(loopBufs[i]->p(), op.loops[i].data(),
                       op.loops[i].size() * sizeof(LatLng)) != 0)
                R.guardsOk = false;
        std::vector<uint8_t> &o = R.out;
        bool okrc = !R.rcIsError || c.rc == E_SUCCESS;
        switch (op.fn) {
            case FN_describeH3Error:
                R.rc = 0;
                if (c.sret)
                    putBytes(o, c.sret, strnlen(c.sret, 256));
                else
                    put64(o, 0);
                break;
            case FN_degsToRads:
            case FN_radsToDegs:
            case FN_greatCircleDistanceRads:
            case FN_greatCircleDistanceKm:
            case FN_greatCircleDistanceM:
                R.rc = 0;
                putd(o, c.dret);
                break;
            case FN_cellToBoundary:
            case FN_directedEdgeToBoundary:
                if (okrc) putBoundary(o, B0.as<CellBoundary>());
                break;
            case FN_cellsToLinkedMultiPolygon:
                if (!okrc) o.clear();
                break;
            case FN_h3ToString:
                if (okrc) {
                    const char *s = B0.as<char>();
                    putBytes(o, s, strnlen(s, c.sz));
                }
                break;
            case FN_polygonToCellsExperimental:
                // cells are written from index 0 upwards; the rest stays zero
                if (okrc) putBytes(o, B0.p(), n0 * 8);
                break;
            case FN_gridDiskDistancesUnsafe:
            case FN_gridDiskDistancesSafe:
            case FN_gridDiskDistances:
                if (okrc) {
                    putBytes(o, B0.p(), n0 * 8);
                    if (n1) putBytes(o, B1.p(), n1 * sizeof(int));
                }
                break;
            default:
                if (okrc && B0.base) {
                    if (n0)
                        putBytes(o, B0.p(),
                                 n0 * (op.fn == FN_getIcosahedronFaces ? 4 : 8));
                    else
                        putBytes(o, B0.p(), B0.n);
                }
                break;
        }
    } else {
        R.out.clear();
    }
    for (auto *b : loopBufs) delete b;
    if (seal) constUnsealOp();
    outReleaseOp();
    return R;
}
