#include "statics.h"

#include <stdio.h>
#include <stdlib.h>
#include <string.h>

#ifdef SIM_NO_STATIC_FENCE
bool staticsAvailable() { return false; }
const StaticRegion *staticRegions() { return nullptr; }
void staticsInit() {}
void staticsRestore() {}
void staticsRestoreRef() {}
size_t staticsLibraryBytes() { return 0; }
#else
extern "C" {
extern char h3w_pad_before_data[4096];
extern char h3w_pad_after_data[4096];
extern char h3w_pad_before_bss[4096];
extern char h3w_pad_after_bss[4096];
extern char h3r_pad_before_data[4096];
extern char h3r_pad_after_data[4096];
extern char h3r_pad_before_bss[4096];
extern char h3r_pad_after_bss[4096];
}
namespace {
// [0],[1]: data and bss of the simulated copy; [2],[3]: of the reference copy
const int NREG = 4;
StaticRegion g_reg[NREG];
char *g_snap[NREG] = {nullptr, nullptr, nullptr, nullptr};
bool g_ready = false;
}  // namespace
bool staticsAvailable() { return true; }
const StaticRegion *staticRegions() { return g_reg; }
void staticsInit() {
    if (g_ready) return;
    g_reg[0].lo = (uintptr_t)h3w_pad_before_data;
    g_reg[0].hi = (uintptr_t)h3w_pad_after_data + 4096;
    g_reg[1].lo = (uintptr_t)h3w_pad_before_bss;
    g_reg[1].hi = (uintptr_t)h3w_pad_after_bss + 4096;
    g_reg[2].lo = (uintptr_t)h3r_pad_before_data;
    g_reg[2].hi = (uintptr_t)h3r_pad_after_data + 4096;
    g_reg[3].lo = (uintptr_t)h3r_pad_before_bss;
    g_reg[3].hi = (uintptr_t)h3r_pad_after_bss + 4096;
    for (int i = 0; i < NREG; i++) {
        StaticRegion &r = g_reg[i];
        if ((r.lo & 4095) || (r.hi & 4095) || r.hi <= r.lo || r.hi - r.lo > (64u << 20)) {
            fprintf(stderr, "statics: unexpected layout of library static storage\n");
            exit(3);
        }
        g_snap[i] = (char *)malloc(r.hi - r.lo);
        memcpy(g_snap[i], (void *)r.lo, r.hi - r.lo);
    }
    g_ready = true;
}
void staticsRestore() {
    if (!g_ready) return;
    for (int i = 0; i < NREG; i++)
        memcpy((void *)g_reg[i].lo, g_snap[i], g_reg[i].hi - g_reg[i].lo);
}
void staticsRestoreRef() {
    if (!g_ready) return;
    for (int i = 2; i < NREG; i++)
        memcpy((void *)g_reg[i].lo, g_snap[i], g_reg[i].hi - g_reg[i].lo);
}
size_t staticsLibraryBytes() {
    size_t n = 0;
    for (int i = 0; i < 2; i++) n += (g_reg[i].hi - g_reg[i].lo) - 2 * 4096;  // simulated copy only
    return n;
}
#endif
