// gen.h — seeded workload generators.  Inputs are built with the library's own
// enumeration functions in the REF copy (valid by construction) and then
// deliberately damaged for the error-path variants (DESIGN.md §4.1).
#pragma once
#include "op.h"

struct Gen {
    Rng &r;
    int boost = 0;  // 1 in the thorough tier: larger inputs (more allocations, deeper compactions)
    explicit Gen(Rng &rng) : r(rng) {}
    LatLng nearIcosaEdge();          // a point within 1e-9 .. 1e-3 rad of an icosahedron edge, mostly near its midpoint
    Op primerFor(const Op &op);
    // a sequence of n calls of ONE cheap function whose arguments follow a walk (tiny steps across an icosahedron
    // edge, neighbour steps around a pentagon, ...): the call history of a thread that works through nearby data
    std::vector<Op> walk(int n);      // same function, "nearby" arguments: what a thread did just before

    // --- cells
    H3Index randCell(int res);
    H3Index pentagon(int res);
    H3Index nearPentagon(int res, int maxDist);
    H3Index neighborOf(H3Index c);
    H3Index damaged(H3Index c);
    H3Index anyCell();        // valid, emphasis on pentagons and neighbours
    H3Index anyCellOrBad();   // sometimes damaged
    LatLng randPoint();
    LatLng centerOf(H3Index c);

    // --- operations for the claimed properties
    Op c17Op();               // weighted over the C17 functions
    Op c17OpFor(int fn);
    Op c16Op(int maxCells);
    Op anyOp(int scale, int forcedFn = -1);  // C18: any exported function; scale 0..2

    // --- fixed catalogue: structures that must be covered whatever the seed
    //     (every pentagon at every resolution); index -> op, seed-independent
    static int64_t catalogueC17Size();
    bool catalogueC17(int64_t idx, Op &op);
    static int64_t catalogueC16Size();
    bool catalogueC16(int64_t idx, Op &op);

    // --- pieces
    Op compactOp();
    Op diskOp(bool distancesFn);
    Op neighborsOp();
    Op polygonOp(int fn, int maxCells);
    std::vector<H3Index> cellSet(int maxCells, std::string &tag);
    void polygonAround(LatLng center, double radiusRads, Op &op);
};

void genInitWorld();
double edgeLenRads(int res);
