// op.h — one API call as explicit data (what replay files contain), its
// execution against either copy of the library, and the canonical
// serialisation of its documented outputs (DESIGN.md §2.7, §2.9).
#pragma once
#include <string>
#include <vector>

#include "api.h"
#include "contain.h"
#include "heap.h"
#include "util.h"

struct Op {
    int fn = 0;
    std::vector<uint64_t> cells;
    std::vector<int64_t> ints;
    std::vector<double> dbls;
    std::vector<std::vector<LatLng>> loops;  // loops[0] outer, rest holes
    std::string str;
    std::string tag;  // generator family, for evidence only
    int share = 0;    // C18: ops with equal non-zero share id and equal
                      // arguments read the SAME caller-owned input buffers
    FaultPlan fault;  // attached to the operation, never a global index

    JP toJson(bool withFault = true) const;
    static Op fromJson(const JVal &j);
    std::string brief() const;
    uint64_t hash() const;  // of arguments (not the fault plan)
};

struct Result {
    int status = CALL_RETURNED;  // CallStatus
    int sig = 0;
    int64_t rc = 0;              // H3Error (or the int return value)
    bool rcIsError = true;       // rc is an H3Error code
    bool skipped = false;        // precondition of the harness not met
    bool guardsOk = true;        // guard bytes around caller buffers intact
    bool leftoverOnError = false;  // (linked polygon) blocks live after error
    // reference copy only (default allocator binding, code under #ifndef H3_ALLOC_PREFIX included): blocks still
    // allocated when the call (and, for a linked polygon, its destroy) returned, and frees of unknown pointers
    int64_t refLive = 0, refBadFrees = 0;
    // write-trap on const inputs (constmem.h): stores the library made to its const inputs during the call
    int constStores = 0;           // all trapped stores
    int constChanged = 0;          // ... that changed the stored bytes
    uint64_t constFirstOffset = 0; // slab offset of the first value-changing store
    int64_t constFirstStep = 0;    // scheduler step at which it happened
    bool constFirstShared = false; // it hit an input object shared with other tasks
    std::vector<uint8_t> out;    // canonical outputs (only when successful)
    uint64_t digest() const;
    bool sameAs(const Result &o) const {
        return status == o.status && rc == o.rc && skipped == o.skipped &&
               out == o.out;
    }
    std::string brief() const;
};

// caller-owned input buffers shared between several operations (C18)
struct SharedInput {
    const H3Index *cells = nullptr;
    GeoPolygon *poly = nullptr;
};

struct ExecOpts {
    const SharedInput *shared = nullptr;
    double wallLimitSec = 0;   // watchdog for single-threaded modes
    bool destroyLinked = true; // call destroyLinkedMultiPolygon after success
    // called between cellsToLinkedMultiPolygon's return and destroy; used by
    // the C16 oracle to audit the heap at that instant
    // value of errno on entry to the library call.  The C library contract lets errno hold anything on entry to
    // a function, so a result that depends on it depends on the calls made earlier on the same thread
    // (ambient-state fault injection; 0 for every reference execution)
    int entryErrno = 0;
    bool sealInputs = false;   // C18: const inputs live in read-only memory while the library runs
    void (*afterLinked)(int64_t rc, void *user) = nullptr;
    void *user = nullptr;
};

// Executes op against api (SIM or REF).  Buffer sizes that are preconditions
// of the API (maxGridDiskSize, maxPolygonToCellsSize, ...) are computed with
// REF.  Never throws; crashes are contained and reported in Result.
Result execOp(const H3Api &api, const Op &op, const ExecOpts &opts);

// adversarial errno value on entry, chosen by a hash (0 in one case out of four)
int entryErrnoFor(uint64_t h);
bool fnAllocates(int fn);     // one of the C17 functions
bool fnIsC17(int fn);
const char *h3ErrorName(int64_t rc);
