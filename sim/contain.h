// contain.h — crash containment (DESIGN.md §2.8): every library call is
// bracketed by sigsetjmp; a fatal signal raised by the calling thread unwinds
// to the bracket and is recorded as the outcome of that call.
#pragma once
#include <setjmp.h>
#include <signal.h>

enum CallStatus { CALL_RETURNED = 0, CALL_CRASHED = 1, CALL_HUNG = 2 };

struct Contained {
    int status = CALL_RETURNED;
    int sig = 0;
    void *faultAddr = nullptr;
};

typedef void (*ContainedFn)(void *);
void containInstall();
void containThreadExit();  // releases the calling thread's alternate signal stack
// Runs f(arg).  wallLimitSec > 0 arms a wall-clock watchdog (single-threaded
// modes only; verdicts from it are confirmed by re-execution before use).
Contained runContained(ContainedFn f, void *arg, double wallLimitSec);
// For the scheduler: abort the current contained call from ordinary code
// (deterministic step budget exceeded).
[[noreturn]] void containAbortHung();
// Optional hook: called first from the SIGSEGV handler with the fault address;
// returns true if the fault was handled (write-trap) and execution may resume.
extern bool (*containSegvHook)(void *addr, void *ucontext);
// second hook of the same kind (write-trap on const inputs, constmem.cc) and the hook for the single-step
// trap that follows a store it let through
extern bool (*containSegvHookConst)(void *addr, void *ucontext);
extern bool (*containTrapHook)(void *ucontext);
