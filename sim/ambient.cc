#include "ambient.h"

#include <fenv.h>
#include <locale.h>
#include <string.h>
#include <stdio.h>
#include <pthread.h>
#include <stdint.h>

#include <signal.h>

#include "contain.h"

namespace {
Ambient g_def;
sigset_t g_defMask;
const int WATCHED[] = {SIGFPE, SIGSEGV, SIGBUS, SIGABRT, SIGILL, SIGALRM, SIGTRAP, SIGINT, SIGTERM, SIGPIPE, SIGUSR1, SIGUSR2, SIGCHLD};
unsigned fpControl() {
#if defined(__x86_64__)
    unsigned mx = __builtin_ia32_stmxcsr() & 0xFFC0u;
    unsigned short cw = 0;
    __asm__ __volatile__("fnstcw %0" : "=m"(cw));
    return (mx << 16) | cw;
#else
    return 0;
#endif
}
void setFpControl(unsigned v) {
#if defined(__x86_64__)
    unsigned mx = (__builtin_ia32_stmxcsr() & 0x3Fu) | ((v >> 16) & 0xFFC0u);
    __builtin_ia32_ldmxcsr(mx);
    unsigned short cw = (unsigned short)(v & 0xFFFFu);
    __asm__ __volatile__("fldcw %0" : : "m"(cw));
#else
    (void)v;
#endif
}
unsigned long sigState() {
    unsigned long h = 1469598103934665603UL;
    auto mixin = [&](unsigned long v) {
        h ^= v;
        h *= 1099511628211UL;
    };
    sigset_t cur;
    sigemptyset(&cur);
    pthread_sigmask(SIG_SETMASK, nullptr, &cur);
    for (int s = 1; s < 32; s++) mixin((unsigned long)sigismember(&cur, s));
    for (int sgn : WATCHED) {
        struct sigaction sa;
        memset(&sa, 0, sizeof sa);
        sigaction(sgn, nullptr, &sa);
        mixin((unsigned long)(uintptr_t)sa.sa_sigaction);
        mixin((unsigned long)sa.sa_flags);
    }
    return h;
}
}  // namespace
std::string Ambient::describe() const {
    const char *r = round == FE_TONEAREST    ? "FE_TONEAREST"
                    : round == FE_UPWARD     ? "FE_UPWARD"
                    : round == FE_DOWNWARD   ? "FE_DOWNWARD"
                    : round == FE_TOWARDZERO ? "FE_TOWARDZERO"
                                             : "?";
    char b[96];
    snprintf(b, sizeof b, " fp-control=%08x signals=%016lx", fpcw, sig);
    return std::string("rounding=") + r + b + (locale.empty() ? "" : " locale=" + locale);
}
void ambientInit() {
    // a locale other than "C" whose numeric formatting equals "C" (so the
    // simulator's own printf/strtod are unaffected)
    if (!setlocale(LC_ALL, "C.UTF-8")) setlocale(LC_ALL, "C.utf8");
    fesetround(FE_TONEAREST);
}
void ambientFixDefault() {
    // called once the simulator's own signal handlers are installed
    sigemptyset(&g_defMask);
    pthread_sigmask(SIG_SETMASK, nullptr, &g_defMask);
    g_def = ambientGet(true);
}
Ambient ambientGet(bool withLocale) {
    Ambient a;
    a.round = fegetround();
    a.fpcw = fpControl();
    a.sig = sigState();
    if (withLocale) {
        const char *l = setlocale(LC_ALL, nullptr);
        a.locale = l ? l : "";
    }
    return a;
}
Ambient ambientDefault() { return g_def; }
void ambientRestoreThread(const Ambient &a) {
    if (fpControl() != a.fpcw) setFpControl(a.fpcw);
    if (fegetround() != a.round) fesetround(a.round);
    if (sigState() != a.sig) {
        containInstall();  // the simulator's own handlers
        for (int sgn : {SIGINT, SIGTERM, SIGPIPE, SIGUSR1, SIGUSR2, SIGCHLD}) signal(sgn, SIG_DFL);
        pthread_sigmask(SIG_SETMASK, &g_defMask, nullptr);
    }
}
void ambientRestore(bool withLocale) {
    ambientRestoreThread(g_def);
    if (withLocale) {
        const char *l = setlocale(LC_ALL, nullptr);
        if (!l || g_def.locale != l) setlocale(LC_ALL, g_def.locale.c_str());
    }
}

// ---------------------------------------------------------------- shims ----
#include <errno.h>
#include <pthread.h>
#include <sched.h>
#include <stdlib.h>
#include <sys/time.h>
#include <time.h>
#include <unistd.h>

void (*ambientYieldHook)(void) = nullptr;
void (*ambientPreferHook)(void) = nullptr;
namespace {
AmbientReads g_reads;
long long g_simNs = 0;
unsigned long long g_simRand = 0x2545F4914F6CDD1DULL;
const long long SIM_EPOCH = 1790000000LL;  // simulated wall clock start (s)
long long tick(long long ns) {
    g_simNs += ns;
    return g_simNs;
}
unsigned long long nextRand() {
    g_simRand ^= g_simRand << 13;
    g_simRand ^= g_simRand >> 7;
    g_simRand ^= g_simRand << 17;
    return g_simRand;
}
}  // namespace
void ambientResetPerRun() {
    g_reads = AmbientReads();
    g_simNs = 0;
    g_simRand = 0x2545F4914F6CDD1DULL;
}
void ambientResetStreams() {
    g_simNs = 0;
    g_simRand = 0x2545F4914F6CDD1DULL;
}
AmbientReads ambientReads() { return g_reads; }

extern "C" {
time_t h3amb_time(time_t *t) {
    g_reads.clock++;
    time_t v = (time_t)(SIM_EPOCH + tick(1000000) / 1000000000LL);
    if (t) *t = v;
    return v;
}
clock_t h3amb_clock(void) {
    g_reads.clock++;
    return (clock_t)(tick(1000000) / 1000);
}
int h3amb_clock_gettime(clockid_t, struct timespec *ts) {
    g_reads.clock++;
    long long n = tick(1000);
    if (ts) {
        ts->tv_sec = (time_t)(SIM_EPOCH + n / 1000000000LL);
        ts->tv_nsec = (long)(n % 1000000000LL);
    }
    return 0;
}
int h3amb_gettimeofday(struct timeval *tv, void *) {
    g_reads.clock++;
    long long n = tick(1000);
    if (tv) {
        tv->tv_sec = (time_t)(SIM_EPOCH + n / 1000000000LL);
        tv->tv_usec = (suseconds_t)((n % 1000000000LL) / 1000);
    }
    return 0;
}
int h3amb_rand(void) {
    g_reads.random++;
    return (int)(nextRand() & 0x7fffffff);
}
long h3amb_random(void) {
    g_reads.random++;
    return (long)(nextRand() & 0x7fffffff);
}
void h3amb_srand(unsigned s) {
    g_reads.random++;
    g_simRand = 0x9E3779B97F4A7C15ULL ^ s;
}
void h3amb_srandom(unsigned s) { h3amb_srand(s); }
int h3amb_rand_r(unsigned *s) {
    g_reads.random++;
    *s = *s * 1103515245u + 12345u;
    return (int)((*s >> 16) & 0x7fff);
}
char *h3amb_getenv(const char *n) {
    g_reads.env++;
    return getenv(n);
}
pid_t h3amb_getpid(void) {
    g_reads.env++;
    return 4242;
}
unsigned h3amb_sleep(unsigned s) {
    g_reads.sleep++;
    tick(1000000000LL * s);
    if (ambientYieldHook) ambientYieldHook();
    return 0;
}
int h3amb_usleep(unsigned us) {
    g_reads.sleep++;
    tick(1000LL * us);
    if (ambientYieldHook) ambientYieldHook();
    return 0;
}
int h3amb_nanosleep(const struct timespec *req, struct timespec *rem) {
    g_reads.sleep++;
    if (req) tick(req->tv_sec * 1000000000LL + req->tv_nsec);
    if (rem) rem->tv_sec = 0, rem->tv_nsec = 0;
    if (ambientYieldHook) ambientYieldHook();
    return 0;
}
int h3amb_sched_yield(void) {
    g_reads.sleep++;
    if (ambientYieldHook) ambientYieldHook();
    return 0;
}
int h3amb_pthread_mutex_lock(pthread_mutex_t *m) {
    g_reads.lock++;
    for (long spins = 0;; spins++) {
        int rc = pthread_mutex_trylock(m);
        if (rc != EBUSY) return rc;
        g_reads.lockContended++;
        if (ambientYieldHook)
            ambientYieldHook();  // the holder is a parked task: let it run
        else
            sched_yield();
        if (spins > 100000000L) return EDEADLK;
    }
}
int h3amb_pthread_spin_lock(pthread_spinlock_t *l) {
    g_reads.lock++;
    for (;;) {
        int rc = pthread_spin_trylock(l);
        if (rc != EBUSY) return rc;
        g_reads.lockContended++;
        if (ambientYieldHook)
            ambientYieldHook();
        else
            sched_yield();
    }
}

// ---- libc facilities with hidden static state (not re-entrant) -------------------------------------------
// Real behaviour, plus a preferred preemption point on return: the window in which another task can disturb the
// hidden state (strtok's saved pointer, the static struct tm / message buffer, the process locale) opens here.
static void nrPoint(const char *mtUnsafe) {
    g_reads.nonReentrant++;
    if (mtUnsafe) {
        g_reads.hiddenStatic++;
        g_reads.lastHiddenStatic = mtUnsafe;
    }
    if (ambientPreferHook) ambientPreferHook();
}
char *h3amb_strtok(char *s, const char *d) {
    char *r = strtok(s, d);
    nrPoint("strtok");
    return r;
}
struct tm *h3amb_localtime(const time_t *t) {
    struct tm *r = localtime(t);
    nrPoint("localtime");
    return r;
}
struct tm *h3amb_gmtime(const time_t *t) {
    struct tm *r = gmtime(t);
    nrPoint("gmtime");
    return r;
}
char *h3amb_asctime(const struct tm *t) {
    char *r = asctime(t);
    nrPoint("asctime");
    return r;
}
char *h3amb_ctime(const time_t *t) {
    char *r = ctime(t);
    nrPoint("ctime");
    return r;
}
char *h3amb_strerror(int e) {
    char *r = strerror(e);
    nrPoint(nullptr);
    return r;
}
char *h3amb_setlocale(int cat, const char *l) {
    char *r = setlocale(cat, l);
    nrPoint(l ? "setlocale" : nullptr);  // a pure query (NULL) changes nothing
    return r;
}
}
