#include "ambient.h"

#include <fenv.h>
#include <locale.h>
#include <string.h>

namespace {
Ambient g_def;
}
std::string Ambient::describe() const {
    const char *r = round == FE_TONEAREST    ? "FE_TONEAREST"
                    : round == FE_UPWARD     ? "FE_UPWARD"
                    : round == FE_DOWNWARD   ? "FE_DOWNWARD"
                    : round == FE_TOWARDZERO ? "FE_TOWARDZERO"
                                             : "?";
    return std::string("rounding=") + r + (locale.empty() ? "" : " locale=" + locale);
}
void ambientInit() {
    // a locale other than "C" whose numeric formatting equals "C" (so the
    // simulator's own printf/strtod are unaffected)
    if (!setlocale(LC_ALL, "C.UTF-8")) setlocale(LC_ALL, "C.utf8");
    fesetround(FE_TONEAREST);
    g_def = ambientGet(true);
}
Ambient ambientGet(bool withLocale) {
    Ambient a;
    a.round = fegetround();
    if (withLocale) {
        const char *l = setlocale(LC_ALL, nullptr);
        a.locale = l ? l : "";
    }
    return a;
}
Ambient ambientDefault() { return g_def; }
void ambientRestore(bool withLocale) {
    fesetround(g_def.round);
    if (withLocale) {
        const char *l = setlocale(LC_ALL, nullptr);
        if (!l || g_def.locale != l) setlocale(LC_ALL, g_def.locale.c_str());
    }
}
