// c18.cc — C18: the library is re-entrant; concurrent calls equal sequential
// calls (DESIGN.md §4.2).  T real threads, each running a generated program of
// API calls, are released one at a time by the seeded scheduler with
// preemption at every control-flow edge of libh3; the library's static storage
// is write-protected for the whole run.
#include <time.h>

#include <algorithm>

#include <fenv.h>

#include "ambient.h"
#include "runner.h"
#include "constmem.h"
#include "statics.h"
#include "vsched.h"
#include "trap.h"

namespace {

struct C18Case {
    uint64_t caseSeed = 0;
    HeapKnobs knobs;
    SchedConfig sched;
    std::vector<std::vector<Op>> progs;

    JP toJson() const {
        JP j = JVal::obj();
        j->set("caseSeed", hex64(caseSeed));
        j->set("knobs", knobs.toJson());
        JP s = JVal::obj();
        s->set("policy", POLICY_NAMES[sched.policy]);
        s->set("quantumMean", sched.quantumMean);
        s->set("maxSwitches", sched.maxSwitches);
        s->set("pctDepth", sched.pctDepth);
        s->set("pctHorizon", sched.pctHorizon);
        s->set("seed", hex64(sched.seed));
        s->setb("forced", sched.forced);
        JP sw = JVal::arr();
        for (auto &r : sched.schedule) {
            JP e = JVal::arr();
            e->push(JVal::integer(r.step));
            e->push(JVal::integer(r.next));
            sw->push(e);
        }
        s->set("schedule_step_nexttask", sw);
        j->set("sched", s);
        JP ps = JVal::arr();
        for (auto &p : progs) {
            JP a = JVal::arr();
            for (auto &o : p) a->push(o.toJson(true));
            ps->push(a);
        }
        j->set("programs", ps);
        return j;
    }
    static C18Case fromJson(const JVal &j) {
        C18Case c;
        c.caseSeed = strtoull(j.gets("caseSeed", "0").c_str(), nullptr, 16);
        if (JP k = j.get("knobs")) c.knobs = HeapKnobs::fromJson(*k);
        if (JP s = j.get("sched")) {
            std::string pol = s->gets("policy", "uniform");
            for (int i = 0; i < POL_COUNT; i++)
                if (pol == POLICY_NAMES[i]) c.sched.policy = i;
            c.sched.quantumMean = s->geti("quantumMean", 200);
            c.sched.maxSwitches = s->geti("maxSwitches", 4000);
            c.sched.pctDepth = (int)s->geti("pctDepth", 3);
            c.sched.pctHorizon = s->geti("pctHorizon", 100000);
            c.sched.seed = strtoull(s->gets("seed", "1").c_str(), nullptr, 16);
            c.sched.forced = s->getb("forced", false);
            if (JP sw = s->get("schedule_step_nexttask"))
                for (auto &e : sw->a)
                    if (e->a.size() == 2)
                        c.sched.schedule.push_back({e->a[0]->inum, (int)e->a[1]->inum});
        }
        if (JP ps = j.get("programs"))
            for (auto &p : ps->a) {
                std::vector<Op> prog;
                for (auto &o : p->a) prog.push_back(Op::fromJson(*o));
                c.progs.push_back(prog);
            }
        return c;
    }
};

// identity of the caller-owned input arrays of an op (cells + polygon loops
// only): ops of DIFFERENT functions can read the same shared buffers
uint64_t dataHash(const Op &op) {
    Chain c;
    for (auto v : op.cells) c.add(v);
    c.add(0x33);
    for (auto &l : op.loops) {
        c.add(l.size());
        c.addBytes(l.data(), l.size() * sizeof(LatLng));
    }
    return c.h ? c.h : 1;
}

// caller-owned input buffers shared by several operations.  They live in the shared const slab
// (constmem.h), which is read-only during the sequential and the concurrent phase, so that a store to a
// shared const input is trapped at the instruction that makes it — whatever the interleaving.
struct SharedBuf {
    H3Index *cells = nullptr;
    std::vector<LatLng *> loops;
    GeoLoop *holes = nullptr;
    GeoPolygon *poly = nullptr;
    SharedInput in;
    uint64_t hash = 0;
    std::vector<std::unique_ptr<uint8_t[]>> own;  // fallback storage when no const slab is available
    void *grab(size_t bytes) {
        void *m = constSharedAlloc(bytes);
        if (m) return m;
        own.emplace_back(new uint8_t[bytes]());
        return own.back().get();
    }
    void build(const Op &op) {
        hash = dataHash(op);
        cells = (H3Index *)grab((op.cells.size() + 1) * sizeof(H3Index));  // never empty
        if (!op.cells.empty()) memcpy(cells, op.cells.data(), op.cells.size() * sizeof(H3Index));
        for (auto &l : op.loops) {
            LatLng *v = (LatLng *)grab((l.size() + 1) * sizeof(LatLng));
            if (!l.empty()) memcpy(v, l.data(), l.size() * sizeof(LatLng));
            loops.push_back(v);
        }
        if (!op.loops.empty()) {
            poly = (GeoPolygon *)grab(sizeof(GeoPolygon));
            memset(poly, 0, sizeof *poly);
            poly->geoloop.numVerts = (int)op.loops[0].size();
            poly->geoloop.verts = op.loops[0].empty() ? nullptr : loops[0];
            size_t nh = op.loops.size() - 1;
            if (nh) {
                holes = (GeoLoop *)grab(nh * sizeof(GeoLoop));
                for (size_t i = 0; i < nh; i++) {
                    holes[i].numVerts = (int)op.loops[i + 1].size();
                    holes[i].verts = op.loops[i + 1].empty() ? nullptr : loops[i + 1];
                }
            }
            poly->numHoles = (int)nh;
            poly->holes = nh ? holes : nullptr;
            in.poly = poly;
        }
        if (!op.cells.empty()) in.cells = cells;
    }
    bool reported = false;
    void restore(const Op &op) {  // same sizes: copy the pristine argument data back in place (slab unsealed)
        if (!op.cells.empty()) memcpy(cells, op.cells.data(), op.cells.size() * 8);
        for (size_t i = 0; i < op.loops.size(); i++)
            if (!op.loops[i].empty())
                memcpy(loops[i], op.loops[i].data(), op.loops[i].size() * sizeof(LatLng));
        reported = false;
    }
    bool intact(const Op &op) const {
        if (!op.cells.empty() && memcmp(cells, op.cells.data(), op.cells.size() * 8) != 0) return false;
        for (size_t i = 0; i < op.loops.size(); i++)
            if (!op.loops[i].empty() &&
                memcmp(loops[i], op.loops[i].data(), op.loops[i].size() * sizeof(LatLng)) != 0)
                return false;
        return true;
    }
};

struct OpSlot {
    bool dropped = false;
    std::string dropWhy;
    Result ref, expected, got;
    int64_t soloSteps = 0, budget = 0;
    int64_t failedSolo = 0, failedConc = 0, allocs = 0;
    int64_t fired[F_KINDS] = {0};
    std::vector<HeapViolation> heapV;
    const SharedInput *shared = nullptr;
    int64_t tailResolved = 0;      // fault plans with a negative index ("n-th request from the last"): the index it means
    std::vector<int64_t> nrSteps;  // solo steps at which the call returned from a non-re-entrant libc facility
    bool roundChanged = false;  // any per-thread ambient state (FP control, signal mask/dispositions) left changed
    std::string ambWhat;
};

struct C18Outcome {
    std::vector<JP> violations;  // each carries the complete case (programs + forced schedule)
    std::vector<std::string> observations;
    SchedStats st;               // of the last concurrent execution
    int64_t steps = 0, switches = 0, guardEvents = 0, allocEvents = 0, concurrentExecs = 0;
    std::set<uint64_t> signatures, pairs;
    Chain chain;
    int64_t opsRun = 0, opsDropped = 0, soloSteps = 0;
    int64_t fired[F_KINDS] = {0};
    int64_t faultedOps = 0;
    int sharedGroups = 0;
    std::map<std::string, int64_t> fnCalls;
};

inline uint64_t fillSeedOf(uint64_t caseSeed, int t, int i) {
    return mix2(caseSeed, (uint64_t)t * 100003ULL + (uint64_t)i);
}

JP mkViolation(const std::string &cls, const Op &op, int t, int i,
               const std::string &detail, const std::string &site) {
    JP v = JVal::obj();
    v->set("property", "C18");
    v->set("class", cls);
    v->set("fn", FN_NAMES[op.fn]);
    v->set("task", t);
    v->set("op_index", i);
    v->set("detail", detail);
    v->set("site", site);
    return v;
}

uint64_t g_opIdCounter = 1ULL << 40;

// the fault plan an operation really runs with.  In the sanitizer builds no allocation is failed inside a function
// that is not specified to survive it: the unchanged tree dereferences NULL there, which UBSan reports fatally
// (cannot be contained) and which says nothing about C18.
inline FaultPlan planFor(const Op &op, int64_t tailResolved = 0) {
#ifdef SIM_DELEGATE_MALLOC
    if (!fnIsC17(op.fn)) return FaultPlan();
#endif
    FaultPlan p = op.fault;
    if (p.n < 0 && tailResolved > 0) p.n = tailResolved;  // "(-n)-th request from the last" of the fault-free execution
    return p;
}

// One case = programs + knobs.  prepare() runs the attribution pre-run and the
// sequential reference once; concurrent() executes the same calls under one
// schedule and judges them, and may be called several times (preemption sweep).
struct C18Exec {
    const C18Case &cs;
    int T;
    std::vector<std::vector<OpSlot>> slots;
    std::map<int, std::vector<std::unique_ptr<SharedBuf>>> shared;
    int64_t soloStepsTotal = 0;
    explicit C18Exec(const C18Case &c) : cs(c), T((int)c.progs.size()) {}
    ~C18Exec() {
        shared.clear();
        constSharedReset();
    }
    void prepare(C18Outcome &out);
    void concurrent(const SchedConfig &scIn, C18Outcome &out);
    JP caseWith(const std::vector<SwitchRec> &schedule) const {
        C18Case rec = cs;
        rec.sched.forced = true;
        rec.sched.schedule = schedule;
        return rec.toJson();
    }
};

void C18Exec::prepare(C18Outcome &out) {
    constSharedReset();
    ambientResetStreams();
    slots.assign((size_t)T, std::vector<OpSlot>());
    for (int t = 0; t < T; t++) slots[t].resize(cs.progs[t].size());

    // shared caller-owned inputs
    for (int t = 0; t < T; t++)
        for (size_t i = 0; i < cs.progs[t].size(); i++) {
            const Op &op = cs.progs[t][i];
            if (!op.share) continue;
            auto &lst = shared[op.share];
            SharedBuf *found = nullptr;
            for (auto &b : lst)
                if (b->hash == dataHash(op)) found = b.get();
            if (!found) {
                lst.emplace_back(new SharedBuf());
                lst.back()->build(op);
                found = lst.back().get();
                out.sharedGroups++;
            }
            slots[t][i].shared = &found->in;
        }

    constSharedSeal();  // shared const inputs are read-only from here on (except while being restored)
    trapTake();
    trapDisarm();
    staticsRestore();  // pristine library statics at the start of every run
    trapArm();

    // ---- phase A: attribution and sequential reference (DESIGN.md §2.9) ----
    heapReset(cs.knobs);
    OpHeapCtx ctx;
    for (int t = 0; t < T; t++)
        for (size_t i = 0; i < cs.progs[t].size(); i++) {
            const Op &op = cs.progs[t][i];
            OpSlot &s = slots[t][i];
            std::string why;
            AmbientReads rd0 = ambientReads();
            auto reportSoloTraps = [&]() {
                for (auto &tr : trapTake()) {
                    JP v = mkViolation(
                        "I1-static-write", op, t, (int)i,
                        "store to library-owned static storage '" + trapSymbol(tr.addr) +
                            "' while executing " + op.brief() +
                            " alone (sequential phase); two threads making this call would race",
                        trapSymbol(tr.addr));
                    if (out.violations.size() < 8) {
                        v->set("case", caseWith({{0, 0}}));
                        out.violations.push_back(v);
                    }
                }
                trapRearm();
            };
            bool attrOk = false;
            // the reference copy has thread-local storage of its own: it, too, runs on a thread without history
            schedRunOnFreshThread([&]() { attrOk = attributable(op, s.ref, why); });
            reportSoloTraps();  // stores of the reference (default-configuration) copy to ITS static storage
            if (!attrOk) {
                s.dropped = true;
                s.dropWhy = why;
                AmbientReads rd1 = ambientReads();
                if (why.find("not repeatable") != std::string::npos &&
                    (rd1.clock + rd1.random > rd0.clock + rd0.random) && out.violations.size() < 8) {
                    // not a harness matter: the call consumed the (simulated) clock or the
                    // process-wide random stream and its result depends on it
                    JP v = mkViolation(
                        "I6-ambient-state", op, t, (int)i,
                        "two sequential executions of the same call give different results and the call read "
                        "the clock / the process-wide random stream: hidden state shared by all threads",
                        "clock-or-random");
                    v->set("case", caseWith({{0, 0}}));
                    out.violations.push_back(v);
                }
                continue;
            }
            ExecOpts eo;
            eo.shared = s.shared;
            eo.sealInputs = true;
            if (op.fault.kind != F_NONE && op.fault.n < 0) {
                // a plan that counts from the end needs the number of requests of the fault-free execution
                OpHeapCtx cnt;
                cnt.begin(t, ++g_opIdCounter, fillSeedOf(cs.caseSeed, t, (int)i), FaultPlan());
                schedRunOnFreshThread([&]() {
                    heapBind(&cnt);
                    Result r0 = execOp(SIM, op, eo);
                    heapBind(nullptr);
                    if (r0.status != CALL_RETURNED) heapAbandonOp(&cnt);
                });
                s.tailResolved = std::max<int64_t>(1, cnt.allocCount + 1 + op.fault.n);
                trapTake();
                trapRearm();
            }
            ctx.begin(t, ++g_opIdCounter, fillSeedOf(cs.caseSeed, t, (int)i), planFor(op, s.tailResolved));
            Ambient amb0, amb1;
            const long hidden0 = ambientReads().hiddenStatic;
            // "alone" = as the first call of a thread without history (fresh thread-local storage, errno 0)
            schedRunOnFreshThread([&]() {
                heapBind(&ctx);
                amb0 = ambientGet(true);
                schedSoloBegin();
                schedSetOpBudget(50000000);
                s.expected = execOp(SIM, op, eo);
                s.soloSteps = schedSoloEnd();
                s.nrSteps = schedSoloPreferredSteps();
                heapBind(nullptr);
                amb1 = ambientGet(true);
                ambientRestoreThread(ambientDefault());
            });
            if (!(amb0 == amb1) && s.expected.status == CALL_RETURNED) {
                JP v = mkViolation(
                    "I6-ambient-state", op, t, (int)i,
                    "the call changed hidden process/thread state and did not restore it: before " +
                        amb0.describe() + ", after " + amb1.describe() +
                        " (executed alone); every later call on this thread is affected",
                    "");
                if (out.violations.size() < 8) {
                    v->set("case", caseWith({{0, 0}}));
                    out.violations.push_back(v);
                }
            }
            if (ambientReads().hiddenStatic > hidden0 && out.violations.size() < 8) {
                // e.g. strtok: its saved position is ONE object for the whole process, so the call overwrites the
                // state of a tokenising loop of the caller (or of any other thread) - no schedule is needed to see it
                JP v = mkViolation(
                    "I6-ambient-state", op, t, (int)i,
                    std::string("the call used ") + ambientReads().lastHiddenStatic +
                        "(), a C library facility that keeps its state in one static object shared by all threads "
                        "of the process (documented MT-Unsafe): it overwrites that state for the caller and for "
                        "every other thread (executed alone)",
                    "mt-unsafe-libc");
                v->set("case", caseWith({{0, 0}}));
                out.violations.push_back(v);
            }
            ambientRestore(true);
            if (s.expected.status != CALL_RETURNED)
                heapAbandonOp(&ctx);
            else
                heapAudit(&ctx, true);
            s.failedSolo = ctx.failed;
            out.soloSteps += s.soloSteps;
            reportSoloTraps();
            if (s.expected.constChanged > 0 && out.violations.size() < 8) {
                JP v = mkViolation(
                    "I2-const-input-write", op, t, (int)i,
                    "the call stored to one of its const inputs and changed it (" +
                        std::to_string(s.expected.constChanged) + " value-changing store(s), first at byte offset " +
                        std::to_string(s.expected.constFirstOffset) + " of the input area, scheduling point " +
                        std::to_string(s.expected.constFirstStep) +
                        ") while executing alone; a thread that reads the same input object concurrently races with it",
                    s.expected.constFirstShared ? "shared-const-input" : "const-input");
                v->set("case", caseWith({{0, 0}}));
                out.violations.push_back(v);
            }
            if (s.expected.status != CALL_RETURNED) {
                s.dropped = true;
                s.dropWhy = "does not return when executed alone on the simulated heap";
            } else if (!ctx.violations.empty()) {
                s.dropped = true;
                s.dropWhy = "heap discipline violated when executed alone (" +
                            ctx.violations[0].kind + "): outside C18";
            } else if (!s.expected.guardsOk) {
                s.dropped = true;
                s.dropWhy = "writes outside caller buffers when executed alone";
            } else if (ctx.failed == 0 && !s.expected.sameAs(s.ref)) {
                s.dropped = true;
                s.dropWhy = "result alone on the simulated heap differs from the default allocator: outside C18";
            }
            s.budget = std::max<int64_t>(1000000, 1000 * s.soloSteps);
        }
    for (int t = 0; t < T; t++)
        for (size_t i = 0; i < slots[t].size(); i++)
            if (slots[t][i].dropped) {
                out.opsDropped++;
                if (out.observations.size() < 4)
                    out.observations.push_back(slots[t][i].dropWhy + ": " +
                                               cs.progs[t][i].brief());
            }

    soloStepsTotal = out.soloSteps;
}

void C18Exec::concurrent(const SchedConfig &scIn, C18Outcome &out) {
    size_t firstViolation = out.violations.size();
    // ---- phase B: the same calls, concurrently, under the scheduler --------
    // pristine statics again: the concurrent phase models "the first calls of a
    // process are concurrent" (a lazily initialised table is caught here too)
    trapTake();
    trapDisarm();
    staticsRestore();
    trapArm();
    for (auto &ts : slots)
        for (auto &s : ts) {
            s.got = Result();
            s.heapV.clear();
            s.failedConc = 0;
            s.roundChanged = false;
        }
    constSharedUnseal();
    for (int t = 0; t < T; t++)
        for (size_t i = 0; i < cs.progs[t].size(); i++) {
            const Op &op = cs.progs[t][i];
            if (!op.share) continue;
            for (auto &b : shared[op.share])
                if (b->hash == dataHash(op)) b->restore(op);
        }
    constSharedSeal();
    heapReset(cs.knobs);
    std::vector<OpHeapCtx> ctxs((size_t)T);
    // (task, op index, global step at op begin): lets a trap taken in the
    // concurrent phase be attributed to the operation that was executing
    struct OpSpan {
        int task, op;
        int64_t from, to;
    };
    std::vector<OpSpan> spans;
    TaskBody body = [&](int t) {
        for (size_t i = 0; i < cs.progs[t].size(); i++) {
            OpSlot &s = slots[t][i];
            if (s.dropped) continue;
            const Op &op = cs.progs[t][i];
            schedOpBoundary();
            spans.push_back({t, (int)i, schedGlobalStep(), -1});
            size_t spanIdx = spans.size() - 1;
            ExecOpts eo;
            eo.shared = s.shared;
            eo.sealInputs = true;
            // errno holds whatever earlier calls on this thread left in it; alone the call starts with 0
            eo.entryErrno = entryErrnoFor(mix2(cs.caseSeed, op.hash()) + (uint64_t)t);
            OpHeapCtx &c = ctxs[(size_t)t];
            c.begin(t, ++g_opIdCounter, fillSeedOf(cs.caseSeed, t, (int)i), planFor(op, s.tailResolved));
            heapBind(&c);
            Ambient amb0 = ambientGet(false);
            schedSetOpBudget(s.budget);
            s.got = execOp(SIM, op, eo);
            schedSetOpBudget(0);
            heapBind(nullptr);
            Ambient amb1 = ambientGet(false);
            s.roundChanged = !(amb1 == amb0) && s.got.status == CALL_RETURNED;
            if (!(amb1 == amb0)) {
                s.ambWhat = "before " + amb0.describe() + ", after " + amb1.describe();
                ambientRestoreThread(amb0);
            }
            if (s.got.status != CALL_RETURNED)
                heapAbandonOp(&c);
            else
                heapAudit(&c, true);
            s.failedConc = c.failed;
            s.allocs = c.allocCount;
            for (int k = 1; k < F_KINDS; k++) s.fired[k] = c.fired[k];
            s.heapV = c.violations;
            spans[spanIdx].to = schedGlobalStep();
            trapRearm();
        }
        schedOpBoundary();
    };
    SchedConfig sc = scIn;
    sc.pctHorizon = std::max<int64_t>(1000, soloStepsTotal);
    out.st = schedRun(T, sc, body);
    out.concurrentExecs++;
    out.steps += out.st.steps;
    out.switches += out.st.switches;
    out.guardEvents += out.st.guardEvents;
    out.allocEvents += out.st.allocEvents;
    out.signatures.insert(out.st.signature);
    out.pairs.insert(out.st.switchPairs.begin(), out.st.switchPairs.end());
    std::vector<TrapRec> traps = trapTake();
    trapDisarm();
    {
        // quiescence: every task has finished; the process locale must be what it was
        Ambient now = ambientGet(true), def = ambientDefault();
        if (now.locale != def.locale) {
            Op dummy;
            out.violations.push_back(mkViolation(
                "I6-ambient-state", cs.progs[0].empty() ? dummy : cs.progs[0][0], 0, -1,
                "after all tasks finished the process locale is '" + now.locale + "' instead of '" +
                    def.locale + "': calls that save, change and restore it interfered",
                "locale"));
        }
        ambientRestore(true);
    }

    // ---- oracle ---------------------------------------------------------
    for (auto &tr : traps) {
        int t = tr.task >= 0 && tr.task < T ? tr.task : 0;
        Op dummy;
        int opIdx = -1;
        for (auto &sp : spans)
            if (sp.task == t && tr.step >= sp.from && (sp.to < 0 || tr.step <= sp.to)) opIdx = sp.op;
        const Op &op = opIdx >= 0 ? cs.progs[t][(size_t)opIdx]
                                  : (cs.progs[t].empty() ? dummy : cs.progs[t][0]);
        out.violations.push_back(mkViolation(
            "I1-static-write", op, t, opIdx,
            "store to library-owned static storage '" + trapSymbol(tr.addr) +
                "' by task " + std::to_string(tr.task) + " at global step " +
                std::to_string(tr.step) + " of the concurrent phase",
            trapSymbol(tr.addr)));
    }
    for (int t = 0; t < T; t++)
        for (size_t i = 0; i < slots[t].size(); i++) {
            OpSlot &s = slots[t][i];
            const Op &op = cs.progs[t][i];
            out.chain.add(op.hash());
            if (s.dropped) continue;
            out.opsRun++;
            out.fnCalls[FN_NAMES[op.fn]]++;
            out.chain.add(s.expected.digest());
            out.chain.add(s.got.digest());
            for (int k = 1; k < F_KINDS; k++) out.fired[k] += s.fired[k];
            if (s.failedConc) out.faultedOps++;
            if (s.got.status == CALL_CRASHED)
                out.violations.push_back(mkViolation(
                    "I4-crash", op, t, (int)i,
                    "call crashed (signal " + std::to_string(s.got.sig) +
                        ") when interleaved with other calls; alone it returns " +
                        s.expected.brief(),
                    ""));
            else if (s.got.status == CALL_HUNG)
                out.violations.push_back(mkViolation(
                    "I4-hang", op, t, (int)i,
                    "call exceeded its step budget (" + std::to_string(s.budget) +
                        " scheduling points; alone it needs " +
                        std::to_string(s.soloSteps) + ") when interleaved",
                    ""));
            else if (!s.got.sameAs(s.expected))
                out.violations.push_back(mkViolation(
                    "I3-result-differs", op, t, (int)i,
                    "interleaved result " + s.got.brief() +
                        " differs from the result of the same call executed alone " +
                        s.expected.brief() + " [interleaved: on task thread " + std::to_string(t) + " after " +
                        std::to_string(i) + " earlier call(s) of its program, errno " +
                        std::to_string(entryErrnoFor(mix2(cs.caseSeed, op.hash()) + (uint64_t)t)) +
                        " on entry; alone: on a fresh thread, errno 0]",
                    ""));
            else if (!s.got.guardsOk)
                out.violations.push_back(mkViolation(
                    "I2-caller-buffer", op, t, (int)i,
                    "caller-owned buffer (guard bytes or a shared const input) was modified during the interleaved call",
                    ""));
            if (s.roundChanged)
                out.violations.push_back(mkViolation(
                    "I6-ambient-state", op, t, (int)i,
                    "the call left hidden per-thread / process state changed (floating-point control, signal mask or "
                    "dispositions): " + s.ambWhat, ""));
            if (s.got.constChanged > 0)
                out.violations.push_back(mkViolation(
                    "I2-const-input-write", op, t, (int)i,
                    "the call stored to one of its const inputs and changed it (" +
                        std::to_string(s.got.constChanged) + " value-changing store(s), first at byte offset " +
                        std::to_string(s.got.constFirstOffset) + " of the input area, global step " +
                        std::to_string(s.got.constFirstStep) + " of the concurrent phase)" +
                        (s.got.constFirstShared ? "; the object is shared with other tasks" : ""),
                    s.got.constFirstShared ? "shared-const-input" : "const-input"));
            for (auto &hv : s.heapV)
                out.violations.push_back(mkViolation(
                    "I2-" + hv.kind, op, t, (int)i,
                    hv.detail + " (concurrent phase; alone the call obeys the heap discipline)",
                    symName(hv.site)));
            if (s.failedConc > 0 && fnIsC17(op.fn) && s.got.status == CALL_RETURNED &&
                s.got.rc != E_MEMORY_ALLOC)
                out.violations.push_back(mkViolation(
                    "I5-wrong-code", op, t, (int)i,
                    "allocation failed in this task but the call returned " +
                        std::string(h3ErrorName(s.got.rc)),
                    ""));
        }
    // shared inputs must be untouched at the end
    for (int t = 0; t < T; t++)
        for (size_t i = 0; i < cs.progs[t].size(); i++) {
            const Op &op = cs.progs[t][i];
            if (!op.share) continue;
            for (auto &b : shared[op.share])
                if (b->hash == dataHash(op) && !b->reported && !b->intact(op)) {
                    out.violations.push_back(mkViolation(
                        "I2-shared-input-modified", op, t, (int)i,
                        "a const input array shared by several tasks was modified", ""));
                    b->reported = true;
                }
        }
    for (int t = 0; t < T; t++)
        if (heapLiveBlocksOfTask(t) > 0)
            out.violations.push_back(mkViolation(
                "I2-leak", cs.progs[t].empty() ? Op() : cs.progs[t][0], t, -1,
                "task still owns " + std::to_string(heapLiveBlocksOfTask(t)) +
                    " block(s) when its program ends",
                ""));
    out.chain.add(out.st.signature);
    out.chain.add((uint64_t)out.st.steps);
    out.chain.add((uint64_t)out.st.switches);
    // every violation of this execution carries the complete case with the
    // schedule that was actually taken, as an explicit (step, next task) list
    if (out.violations.size() > firstViolation) {
        if (out.violations.size() > firstViolation + 6) out.violations.resize(firstViolation + 6);
        JP cj = caseWith(out.st.recorded);
        for (size_t i = firstViolation; i < out.violations.size(); i++)
            out.violations[i]->set("case", cj);
    }
}

void execC18(const C18Case &cs, C18Outcome &out) {
    C18Exec e(cs);
    e.prepare(out);
    e.concurrent(cs.sched, out);
}

bool hasInputArrays(int fn) {
    switch (fn) {
        case FN_compactCells:
        case FN_cellsToLinkedMultiPolygon:
        case FN_polygonToCells:
        case FN_polygonToCellsExperimental:
        case FN_maxPolygonToCellsSize:
        case FN_maxPolygonToCellsSizeExperimental:
        case FN_uncompactCells:
        case FN_uncompactCellsSize:
        case FN_gridDisksUnsafe:
            return true;
    }
    return false;
}

std::string bitmapHex(const std::vector<uint32_t> &ids, int n) {
    std::string s((size_t)(n / 4 + 1), '0');
    static const char *H = "0123456789abcdef";
    std::vector<uint8_t> nib((size_t)(n / 4 + 1), 0);
    for (auto id : ids)
        if ((int)id <= n) nib[id / 4] |= (uint8_t)(1 << (id % 4));
    for (size_t i = 0; i < nib.size(); i++) s[i] = H[nib[i]];
    return s;
}

// Walk runs (one run in twelve): every task calls ONE cheap function 30-60 times on arguments that follow a walk.
// This is the history a thread-local hint, memo or "last result" shortcut sees in real use; its result is compared
// call by call with the same call made alone on a fresh thread.
C18Case genWalkCase(uint64_t runSeed, const TierCfg &cfg) {
    Rng rng(runSeed ^ 0x3a1c0ffeeULL);
    Gen gen(rng);
    C18Case cs;
    cs.caseSeed = rng.u64();
    cs.knobs = HeapKnobs::draw(rng);
    cs.knobs.capacity = 0;
    int T = (int)rng.range(2, std::min(4, cfg.maxThreads));
    cs.sched.policy = (int)rng.below(POL_COUNT);
    static const int64_t qs[] = {20, 200, 2000, 20000};
    cs.sched.quantumMean = qs[rng.below(4)];
    cs.sched.maxSwitches = 2000;
    cs.sched.pctDepth = (int)rng.range(1, 4);
    cs.sched.seed = rng.u64();
    for (int t = 0; t < T; t++) {
        std::vector<Op> prog;
        int legs = (int)rng.range(1, 2);
        for (int l = 0; l < legs; l++)
        {
            // one walk in eight is long (150-400 calls): per-thread counters and adaptive heuristics need a streak
            int n = rng.chance(0.125) ? (int)rng.range(150, 400) : (int)rng.range(20, cfg.tier == "thorough" ? 80 : 45);
            for (auto &o : gen.walk(n)) prog.push_back(o);
        }
        if (prog.empty()) prog.push_back(gen.anyOp(0));
        cs.progs.push_back(prog);
    }
    return cs;
}

C18Case genCase(uint64_t runSeed, const TierCfg &cfg) {
    Rng rng(runSeed);
    Gen gen(rng);
    C18Case cs;
    cs.caseSeed = rng.u64();
    cs.knobs = HeapKnobs::draw(rng);
    cs.knobs.capacity = 0;
    int T = (int)rng.range(2, cfg.maxThreads);
    if (rng.chance(0.5)) T = (int)rng.range(2, std::min(4, cfg.maxThreads));
    cs.sched.policy = (int)rng.below(POL_COUNT);
    static const int64_t qs[] = {3, 20, 200, 2000, 20000};
    cs.sched.quantumMean = qs[rng.below(5)];
    cs.sched.maxSwitches = cfg.tier == "thorough" ? 12000 : 4000;
    cs.sched.pctDepth = (int)rng.range(1, 6);
    cs.sched.seed = rng.u64();
    int scale = (int)rng.range(0, cfg.scaleMax);
    bool faults = rng.chance(0.3);
    // "storm" runs: every task hammers the same one or two functions, which
    // maximises the chance that two tasks are inside the same code at once
    // (interference through state the library does not own, e.g. libc)
    int stormFn[2] = {-1, -1};
    if (rng.chance(0.25)) {
        stormFn[0] = (int)rng.below(FN_COUNT);
        stormFn[1] = rng.chance(0.5) ? stormFn[0] : (int)rng.below(FN_COUNT);
    }
    for (int t = 0; t < T; t++) {
        int L = (int)rng.range(1, cfg.maxOpsPerTask);
        std::vector<Op> prog;
        for (int i = 0; i < L; i++) {
            Op op = gen.anyOp(scale, stormFn[0] >= 0 ? stormFn[rng.below(2)] : -1);
            if (faults && fnAllocates(op.fn) && rng.chance(0.35)) {
                switch (rng.below(4)) {
                    case 0:
                        op.fault.kind = F1_NTH;
                        op.fault.n = rng.range(1, 4);
                        break;
                    case 3:
                        // one of the LAST requests of the call (negative index = counted from the end): clean-up and
                        // post-processing stages that the early requests never reach
                        op.fault.kind = rng.chance(0.7) ? F1_NTH : F2_FROM_NTH;
                        op.fault.n = -rng.range(1, 8);
                        break;
                    case 1:
                        op.fault.kind = F2_FROM_NTH;
                        op.fault.n = rng.range(1, 3);
                        break;
                    default:
                        op.fault.kind = F3_BERNOULLI;
                        op.fault.p = 0.3;
                        op.fault.seed = rng.u64();
                }
            }
            // what the thread did just before: the same function on "nearby" arguments.  A per-thread hint or memo
            // (thread-local, so no shared memory is involved) that is trusted too far shows as a result that
            // depends on this history
            if (!op.fault.kind && rng.chance(op.tag == "near-icosa-edge" ? 0.8 : 0.2)) prog.push_back(gen.primerFor(op));
            // ... or the very same call, refused for lack of memory, and now retried: whatever a failed call leaves
            // behind (per-thread caches filled half-way, stale keys) meets its first reader here
            if (!op.fault.kind && fnIsC17(op.fn) && rng.chance(0.15)) {
                Op failed = op;
                failed.share = 0;
                failed.tag = "fails-then-retried";
                failed.fault.kind = rng.chance(0.6) ? F2_FROM_NTH : F1_NTH;
                failed.fault.n = rng.range(1, 3);
                prog.push_back(failed);
            }
            prog.push_back(op);
        }
        cs.progs.push_back(prog);
    }
    // shared const inputs: the same arrays handed to several tasks
    if (rng.chance(0.45)) {
        int groups = (int)rng.range(1, 3);
        for (int g = 1; g <= groups; g++) {
            Op op;
            for (int tries = 0; tries < 20; tries++) {
                op = gen.anyOp(scale);
                if (hasInputArrays(op.fn)) break;
            }
            if (!hasInputArrays(op.fn)) continue;
            op.share = g;
            int copies = (int)rng.range(2, std::max(2, T));
            for (int c = 0; c < copies; c++) {
                auto &prog = cs.progs[rng.below((uint64_t)T)];
                prog.insert(prog.begin() + rng.below(prog.size() + 1), op);
            }
        }
    }
    return cs;
}

}  // namespace

// Preemption sweep (a third of the runs): two or three tasks with very short
// programs on shared inputs; the first task is preempted exactly once, at each
// of K positions spread over its own execution, the other task(s) run to
// completion in the gap, then the first task resumes.  This covers, position
// by position, the windows in which a call has temporarily changed something
// another call can see (a caller's "const" input, libc state).
C18Case genSweepCase(uint64_t runSeed, const TierCfg &cfg) {
    Rng rng(runSeed ^ 0x5eeb5eebULL);
    Gen gen(rng);
    C18Case cs;
    cs.caseSeed = rng.u64();
    cs.knobs = HeapKnobs::draw(rng);
    cs.knobs.capacity = 0;
    cs.sched.policy = POL_UNIFORM;
    cs.sched.quantumMean = 200;
    cs.sched.maxSwitches = 0;
    cs.sched.seed = rng.u64();
    cs.sched.forced = true;
    int T = rng.chance(0.75) ? 2 : 3;
    int scale = (int)rng.range(0, std::min(1, cfg.scaleMax));
    Op base;
    bool shareInput = rng.chance(0.6);
    for (int tries = 0; tries < 30; tries++) {
        base = gen.anyOp(scale);
        if (!shareInput || hasInputArrays(base.fn)) break;
    }
    if (shareInput && hasInputArrays(base.fn)) base.share = 1;
    for (int t = 0; t < T; t++) {
        std::vector<Op> prog;
        double u = rng.unit();
        if (t == 0 || u < 0.45) {
            prog.push_back(base);  // same arguments (and, if shared, the same buffers)
        } else if (u < 0.8) {
            Op o = gen.anyOp(scale, base.fn);  // same function, other arguments
            prog.push_back(o);
        } else {
            prog.push_back(gen.anyOp(scale));
        }
        if (base.share && t > 0 && rng.chance(0.5)) {
            // another function reading the same shared polygon / cell set
            static const int polyFns[] = {FN_polygonToCells, FN_polygonToCellsExperimental,
                                          FN_maxPolygonToCellsSize, FN_maxPolygonToCellsSizeExperimental};
            static const int setFns[] = {FN_compactCells, FN_cellsToLinkedMultiPolygon, FN_uncompactCellsSize};
            Op o = base;
            if (!base.loops.empty()) {
                o.fn = polyFns[rng.below(4)];
                o.ints.resize(2);
                if (o.fn == FN_polygonToCellsExperimental) o.ints.push_back(4096);
            } else if (base.fn == FN_compactCells || base.fn == FN_cellsToLinkedMultiPolygon) {
                o.fn = setFns[rng.below(3)];
                o.ints = {(int64_t)((base.cells.empty() ? 0 : (base.cells[0] >> 52) & 0xF))};
            }
            prog.push_back(o);
        }
        cs.progs.push_back(prog);
    }
    return cs;
}

JP runC18(uint64_t runSeed, int64_t runIdx, const TierCfg &cfg) {
    uint64_t modeDraw = mix2(runSeed, 0x51ee9) % 12;
    bool sweep = modeDraw < 4, walkRun = modeDraw == 4;
    C18Case cs = sweep ? genSweepCase(runSeed, cfg) : walkRun ? genWalkCase(runSeed, cfg) : genCase(runSeed, cfg);
    C18Outcome out;
    guardCoverageReset();
    if (!sweep) {
        execC18(cs, out);
    } else {
        C18Exec e(cs);
        e.prepare(out);
        int64_t s0 = 0;
        for (auto &s : e.slots[0])
            if (!s.dropped) s0 += s.soloSteps + 1;
        Rng rng(runSeed ^ 0x77aa);
        int K = cfg.tier == "thorough" ? 40 : 16;
        std::set<int64_t> pos;
        for (int k = 0; k < K && s0 > 1; k++) {
            int64_t lo = 1 + (s0 - 1) * k / K, hi = 1 + (s0 - 1) * (k + 1) / K;
            pos.insert(rng.range(lo, std::max(lo, hi - 1)));
        }
        for (int k = 0; k < 4 && s0 > 1; k++) pos.insert(rng.range(1, std::min<int64_t>(s0, 40)));  // right after entry
        for (int k = 0; k < 6 && s0 > 1; k++) pos.insert(std::max<int64_t>(1, s0 - (int64_t)rng.below(120)));  // right before exit
        {
            // exactly where the first task comes back from a non-re-entrant libc facility (strtok, localtime,
            // setlocale, ...): the window for interference through libc's hidden state opens there
            int64_t off = 0;
            for (auto &s : e.slots[0]) {
                if (s.dropped) continue;
                for (size_t k = 0; k < s.nrSteps.size() && k < 24; k++)
                    for (int64_t d = 0; d <= 2; d++) pos.insert(std::max<int64_t>(1, off + s.nrSteps[k] + d));
                off += s.soloSteps + 1;
            }
        }
        if (pos.empty()) pos.insert(1);
        int T = (int)cs.progs.size();
        for (int64_t p : pos) {
            SchedConfig sc = cs.sched;
            sc.forced = true;
            sc.schedule = {{0, 0}, {p, 1}};
            // with three tasks the second one is itself preempted once by the third
            if (T > 2) sc.schedule.push_back({p + 1 + (int64_t)rng.below(200), 2});
            // with two tasks, half of the time the second task is preempted too and
            // the first one finishes in between (A..|B..|A....|B....)
            if (T == 2 && rng.chance(0.5)) {
                int64_t s1 = 0;
                for (auto &s : e.slots[1])
                    if (!s.dropped) s1 += s.soloSteps + 1;
                if (s1 > 1) sc.schedule.push_back({p + 1 + (int64_t)rng.below((uint64_t)std::min<int64_t>(s1, 400)), 0});
            }
            e.concurrent(sc, out);
            if (!out.violations.empty()) break;
        }
    }
    JP line = JVal::obj();
    line->set("run", runIdx);
    line->set("seed", hex64(runSeed));
    line->set("fn", "program");
    line->set("mode", sweep ? "preemption-sweep" : walkRun ? "walk" : "random-schedule");
    line->set("threads", (int64_t)cs.progs.size());
    line->set("policy", sweep ? "single-preemption-sweep" : POLICY_NAMES[cs.sched.policy]);
    line->set("quantum", sweep ? 0 : cs.sched.quantumMean);
    line->set("ops", out.opsRun);
    line->set("ops_dropped", out.opsDropped);
    line->set("execs", out.opsRun);
    line->set("concurrent_executions", out.concurrentExecs);
    line->set("steps", out.steps);
    line->set("guard_events", out.guardEvents);
    line->set("alloc_events", out.allocEvents);
    line->set("switches", out.switches);
    line->set("solo_steps", out.soloSteps);
    line->set("signature", hex64(out.st.signature));
    line->set("shared_groups", out.sharedGroups);
    {
        // cumulative per worker process; the driver takes the maximum per worker and sums over workers
        static int64_t lastSealed = 0, lastTrapped = 0;
        line->set("const_sealed_calls", constSealedCalls() - lastSealed);
        line->set("const_trapped_stores", constTrappedStores() - lastTrapped);
        lastSealed = constSealedCalls();
        lastTrapped = constTrappedStores();
    }
    line->set("faulted_execs", out.faultedOps);
    JP f = JVal::obj();
    for (int k = 1; k < F_KINDS; k++)
        if (out.fired[k]) f->set(FAULT_NAMES[k], out.fired[k]);
    line->set("fired", f);
    JP fc = JVal::obj();
    for (auto &kv : out.fnCalls) fc->set(kv.first, kv.second);
    line->set("fn_calls", fc);
    line->set("distinct_switch_pairs", (int64_t)out.pairs.size());
    JP pb = JVal::arr();
    for (auto p : out.pairs) {
        uint64_t h = mix2(p, 0x9a1f) & ((1u << 20) - 1);
        pb->push(JVal::integer((int64_t)h));
    }
    line->set("pair_bits", pb);
    line->set("cov", bitmapHex(guardCoveredIds(), guardCount()));
    {
        // control-flow edges at which a task was actually preempted in this run
        std::vector<uint32_t> at;
        for (auto p : out.pairs) {
            uint64_t g = p >> 32;
            if (g > 0 && g <= (uint64_t)guardCount()) at.push_back((uint32_t)g);
        }
        line->set("preempt_cov", bitmapHex(at, guardCount()));
    }
    JP sc = JVal::arr();
    for (auto sg : out.signatures) sc->push(JVal::str(hex64(sg)));
    line->set("scenarios", sc);
    if (!out.observations.empty()) {
        line->set("observation", out.observations[0]);
        JP oa = JVal::arr();
        for (auto &o : out.observations) oa->push(JVal::str(o));
        line->set("observations", oa);
    }
    line->set("hash", hex64(out.chain.h));
    JP vs = JVal::arr();
    {
        // one record per class; each already carries its complete case
        std::set<std::string> seen;
        for (auto &v : out.violations) {
            std::string key = v->gets("class") + "|" + v->gets("fn") + "|" + v->gets("site");
            if (!seen.insert(key).second || !v->get("case")) continue;
            vs->push(v);
            if (vs->a.size() >= 3) break;
        }
    }
    line->set("violations", vs);
    if (cfg.wantSample) {
        C18Case rec = cs;
        rec.sched.forced = true;
        rec.sched.schedule = out.st.recorded;
        if (rec.sched.schedule.size() > 40) rec.sched.schedule.resize(40);
        for (auto &p : rec.progs)
            for (auto &o : p)
                if (o.cells.size() > 12) {
                    o.cells.resize(12);
                    o.tag += " (sample: cell list truncated)";
                }
        JP s = rec.toJson();
        s->set("note", "schedule truncated to its first 40 switches in this sample");
        line->set("sample", s);
    }
    return line;
}

static bool outcomeHas(const C18Outcome &o, const std::string &cls,
                       const std::string &site, std::string *detail) {
    for (auto &v : o.violations)
        if (v->gets("class") == cls && (site.empty() || v->gets("site") == site)) {
            if (detail) *detail = v->gets("detail");
            return true;
        }
    return false;
}

int replayC18(const JVal &file, const std::string &path) {
    C18Case cs = C18Case::fromJson(*file.get("case"));
    std::string cls = file.gets("class"), site = file.gets("site");
    C18Outcome out;
    execC18(cs, out);
    printf("replay %s: %zu task(s), %lld op(s) run, %lld step(s), %lld switch(es), schedule signature %s\n",
           path.c_str(), cs.progs.size(), (long long)out.opsRun, (long long)out.st.steps,
           (long long)out.st.switches, hex64(out.st.signature).c_str());
    for (auto &v : out.violations)
        printf("  verdict %s in %s (task %lld, op %lld): %s\n", v->gets("class").c_str(),
               v->gets("fn").c_str(), (long long)v->geti("task"), (long long)v->geti("op_index"),
               v->gets("detail").c_str());
    if (outcomeHas(out, cls, site, nullptr)) {
        printf("VIOLATION property=C18 replay=%s\n", path.c_str());
        return 1;
    }
    printf("not reproduced: no verdict of class %s\n", cls.c_str());
    return 0;
}

int minimizeC18(const std::string &in, const std::string &outPath) {
    std::string txt;
    if (!readFile(in, txt)) return 2;
    JParser jp(txt);
    JP f = jp.parse();
    if (!jp.ok || !f->get("case")) return 2;
    std::string cls = f->gets("class"), site = f->gets("site");
    C18Case cs = C18Case::fromJson(*f->get("case"));
    C18Case orig = cs;
    int execs = 0;
    int budget = 200;
    // wall-clock only bounds how far the replay file is shrunk, never a verdict
    time_t tStart = time(nullptr);
    auto repro = [&](const C18Case &c, std::string *detail = nullptr) {
        execs++;
        if (time(nullptr) - tStart > 45) budget = 0;
        C18Outcome o;
        execC18(c, o);
        return outcomeHas(o, cls, site, detail);
    };
    if (!repro(cs)) {
        fprintf(stderr, "minimize: original case does not reproduce %s\n", cls.c_str());
        return 2;
    }
    // 1. drop whole tasks (renumbering schedule entries)
    for (int t = (int)cs.progs.size() - 1; t >= 0 && execs < budget; t--) {
        if (cs.progs.size() <= 1) break;
        C18Case c = cs;
        c.progs.erase(c.progs.begin() + t);
        std::vector<SwitchRec> s2;
        for (auto r : c.sched.schedule) {
            if (r.next == t) continue;
            if (r.next > t) r.next--;
            s2.push_back(r);
        }
        c.sched.schedule = s2;
        if (repro(c)) cs = c;
    }
    // 2. drop operations (chunks, then singles)
    for (size_t t = 0; t < cs.progs.size(); t++) {
        size_t chunk = std::max<size_t>(1, cs.progs[t].size() / 2);
        while (chunk >= 1 && execs < budget) {
            for (size_t start = 0; start < cs.progs[t].size() && execs < budget;) {
                C18Case c = cs;
                size_t len = std::min(chunk, c.progs[t].size() - start);
                c.progs[t].erase(c.progs[t].begin() + start, c.progs[t].begin() + start + len);
                if (repro(c))
                    cs = c;
                else
                    start += chunk;
            }
            if (chunk == 1) break;
            chunk /= 2;
        }
    }
    // 3. drop switch points (fewer, longer quanta)
    {
        size_t chunk = std::max<size_t>(1, cs.sched.schedule.size() / 2);
        while (chunk >= 1 && execs < budget && !cs.sched.schedule.empty()) {
            for (size_t start = 0; start < cs.sched.schedule.size() && execs < budget;) {
                C18Case c = cs;
                size_t len = std::min(chunk, c.sched.schedule.size() - start);
                c.sched.schedule.erase(c.sched.schedule.begin() + start,
                                       c.sched.schedule.begin() + start + len);
                if (repro(c))
                    cs = c;
                else
                    start += chunk;
            }
            if (chunk == 1) break;
            chunk /= 2;
        }
    }
    // 4. simplest heap behaviour, no faults
    {
        C18Case c = cs;
        c.knobs = HeapKnobs::benign();
        if (execs < budget && repro(c)) cs = c;
        c = cs;
        bool any = false;
        for (auto &p : c.progs)
            for (auto &o : p)
                if (o.fault.kind != F_NONE) {
                    o.fault = FaultPlan();
                    any = true;
                }
        if (any && execs < budget && repro(c)) cs = c;
    }
    std::string detail;
    if (!repro(cs, &detail)) {
        cs = orig;
        repro(cs, &detail);
    }
    JP o = JVal::obj();
    for (auto &kv : f->o)
        if (kv.first != "case" && kv.first != "detail") o->set(kv.first, kv.second);
    o->set("detail", detail);
    o->setb("minimised", true);
    o->set("minimise_executions", (int64_t)execs);
    JP sz = JVal::obj();
    auto countOps = [](const C18Case &c) {
        int64_t n = 0;
        for (auto &p : c.progs) n += (int64_t)p.size();
        return n;
    };
    sz->set("tasks_before", (int64_t)orig.progs.size());
    sz->set("tasks_after", (int64_t)cs.progs.size());
    sz->set("ops_before", countOps(orig));
    sz->set("ops_after", countOps(cs));
    sz->set("switches_before", (int64_t)orig.sched.schedule.size());
    sz->set("switches_after", (int64_t)cs.sched.schedule.size());
    o->set("shrink", sz);
    o->set("case", cs.toJson());
    if (!writeFile(outPath, o->dump() + "\n")) return 2;
    printf("minimised in %d executions: tasks %zu -> %zu, ops %lld -> %lld, switches %zu -> %zu\n",
           execs, orig.progs.size(), cs.progs.size(), (long long)countOps(orig),
           (long long)countOps(cs), orig.sched.schedule.size(), cs.sched.schedule.size());
    return 0;
}
