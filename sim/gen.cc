#include "gen.h"

#include <algorithm>
#include <cmath>
#include <set>

namespace {
H3Index PENT[16][12];
H3Index RES0[122];
struct IcosaEdge {
    double m[3], u[3], n[3];  // midpoint, unit tangent, unit normal (all on/tangent to the unit sphere)
};
std::vector<IcosaEdge> ICOSA_EDGES;
double EDGE_RADS[16];
bool worldReady = false;
const double PI = 3.14159265358979323846;

// Buffer capacities below come from closed forms (3k(k+1)+1 cells in a disk, at most 7^n children), not from the
// tree under test: a tree whose own size functions are wrong must not be able to corrupt the generator's memory.
std::vector<H3Index> refDisk(H3Index c, int k) {
    std::vector<H3Index> out;
    if (k < 0 || k > 250) return out;
    int64_t cap = 3 * (int64_t)k * (k + 1) + 1;
    int64_t sz = 0;
    if (REF.maxGridDiskSize(k, &sz) != E_SUCCESS || sz > 200000) return out;
    std::vector<H3Index> buf((size_t)std::max(cap, sz) + 16, 0);
    if (REF.gridDisk(c, k, buf.data()) != E_SUCCESS) return out;
    for (auto h : buf)
        if (h) out.push_back(h);
    return out;
}
std::vector<H3Index> refChildren(H3Index p, int res) {
    std::vector<H3Index> out;
    int n = res - (int)((p >> 52) & 0xF);
    if (n < 0 || n > 6) return out;  // 7^6 = 117649
    int64_t cap = 1;
    for (int i = 0; i < n; i++) cap *= 7;
    int64_t sz = 0;
    if (REF.cellToChildrenSize(p, res, &sz) != E_SUCCESS || sz > 200000)
        return out;
    std::vector<H3Index> buf((size_t)std::max(cap, sz) + 16, 0);
    REF.cellToChildren(p, res, buf.data());
    for (auto h : buf)
        if (h) out.push_back(h);
    return out;
}
double wrapLng(double lng) {
    if (!std::isfinite(lng) || fabs(lng) > 1e6) return lng;  // special values are passed through as they are
    while (lng > PI) lng -= 2 * PI;
    while (lng < -PI) lng += 2 * PI;
    return lng;
}
}  // namespace

void genInitWorld() {
    if (worldReady) return;
    for (int r = 0; r < 16; r++) {
        REF.getPentagons(r, PENT[r]);
        double km = 0;
        REF.getHexagonEdgeLengthAvgKm(r, &km);
        EDGE_RADS[r] = km / 6371.007180918475;
    }
    REF.getRes0Cells(RES0);
    {
        // the 12 resolution-0 pentagons sit on the icosahedron's vertices; its 30 edges join the vertex pairs
        // 63.43 degrees apart
        double v[12][3];
        for (int i = 0; i < 12; i++) {
            LatLng g = {0, 0};
            REF.cellToLatLng(PENT[0][i], &g);
            v[i][0] = cos(g.lat) * cos(g.lng);
            v[i][1] = cos(g.lat) * sin(g.lng);
            v[i][2] = sin(g.lat);
        }
        for (int i = 0; i < 12; i++)
            for (int j = i + 1; j < 12; j++) {
                double dot = v[i][0] * v[j][0] + v[i][1] * v[j][1] + v[i][2] * v[j][2];
                if (fabs(acos(std::max(-1.0, std::min(1.0, dot))) - 1.1071487177940904) > 0.01) continue;
                IcosaEdge e;
                double ml = 0, ul = 0;
                for (int k = 0; k < 3; k++) {
                    e.m[k] = v[i][k] + v[j][k];
                    e.u[k] = v[j][k] - v[i][k];
                    ml += e.m[k] * e.m[k];
                    ul += e.u[k] * e.u[k];
                }
                for (int k = 0; k < 3; k++) {
                    e.m[k] /= sqrt(ml);
                    e.u[k] /= sqrt(ul);
                }
                e.n[0] = e.m[1] * e.u[2] - e.m[2] * e.u[1];
                e.n[1] = e.m[2] * e.u[0] - e.m[0] * e.u[2];
                e.n[2] = e.m[0] * e.u[1] - e.m[1] * e.u[0];
                ICOSA_EDGES.push_back(e);
            }
    }
    worldReady = true;
}
double edgeLenRads(int res) {
    if (res < 0) res = 0;
    if (res > 15) res = 15;
    return EDGE_RADS[res];
}

LatLng Gen::randPoint() {
    LatLng g;
    g.lat = asin(r.uniform(-1, 1));
    g.lng = r.uniform(-PI, PI);
    return g;
}
static H3Index atDistanceFrom(H3Index p, int d) {
    std::vector<H3Index> disk = refDisk(p, d), inner = refDisk(p, d - 1);
    std::set<H3Index> in(inner.begin(), inner.end());
    for (auto c : disk)
        if (!in.count(c)) return c;
    return p;
}
LatLng Gen::nearIcosaEdge() {
    if (ICOSA_EDGES.empty()) return randPoint();
    const IcosaEdge &e = ICOSA_EDGES[r.below(ICOSA_EDGES.size())];
    double t = r.chance(0.7) ? r.uniform(-0.012, 0.012) : r.uniform(-0.5, 0.5);
    double d = pow(10.0, r.uniform(-9, -3)) * (r.chance(0.5) ? 1 : -1);
    if (r.chance(0.1)) d = 0;
    double p[3], l = 0;
    for (int k = 0; k < 3; k++) {
        p[k] = e.m[k] + t * e.u[k] + d * e.n[k];
        l += p[k] * p[k];
    }
    LatLng g;
    g.lat = asin(p[2] / sqrt(l));
    g.lng = atan2(p[1], p[0]);
    return g;
}
Op Gen::primerFor(const Op &op) {
    Op pr = op;
    pr.share = 0;
    pr.fault = FaultPlan();
    pr.tag = "primer";
    if (pr.dbls.size() >= 2 && std::isfinite(pr.dbls[0]) && std::isfinite(pr.dbls[1])) {
        // a point 0.01 .. 0.3 rad away (for latLngToCell also at another resolution half of the time)
        double ang = r.uniform(0, 2 * PI), dist = r.chance(0.5) ? r.uniform(0.01, 0.08) : r.uniform(0.08, 0.3);
        pr.dbls[0] = std::max(-PI / 2, std::min(PI / 2, pr.dbls[0] + dist * sin(ang)));
        pr.dbls[1] = wrapLng(pr.dbls[1] + dist * cos(ang) / std::max(0.05, cos(pr.dbls[0])));
        if (pr.fn == FN_latLngToCell && !pr.ints.empty() && r.chance(0.5)) pr.ints[0] = (int64_t)r.below(16);
    } else if (!pr.loops.empty() && pr.loops[0].size() >= 3 && r.chance(0.35)) {
        // the same polygon object first at a coarser resolution and/or in another containment mode
        if (!pr.ints.empty()) pr.ints[0] = std::max<int64_t>(0, pr.ints[0] - (int64_t)r.range(1, 3));
        if (pr.ints.size() > 1 && (pr.fn == FN_polygonToCellsExperimental || pr.fn == FN_maxPolygonToCellsSizeExperimental))
            pr.ints[1] = (int64_t)r.below(4);
    } else if (!pr.loops.empty() && pr.loops[0].size() >= 3) {
        // the caller re-uses its polygon buffers: same object, same counts, same first and last vertex, other
        // vertices edited in place (the simulator hands every call of a task its inputs at the same addresses)
        auto &outer = pr.loops[0];
        double f = r.chance(0.5) ? r.uniform(0.3, 0.8) : r.uniform(1.2, 3.0);
        LatLng a = outer.front();
        for (size_t i = 1; i + 1 < outer.size(); i++) {
            if (!std::isfinite(outer[i].lat) || !std::isfinite(outer[i].lng)) continue;
            double dl = outer[i].lng - a.lng;
            if (dl > PI) dl -= 2 * PI;
            if (dl < -PI) dl += 2 * PI;
            outer[i].lat = std::max(-PI / 2, std::min(PI / 2, a.lat + (outer[i].lat - a.lat) * f));
            outer[i].lng = wrapLng(a.lng + dl * f);
        }
        if (f > 1.2) {
            // a larger polygon at the same resolution may exceed the harness's size bound: keep the primer cheap
            pr.loops.resize(1);
            if (!pr.ints.empty() && pr.ints[0] > 2) pr.ints[0] -= 2;
        }
    } else if (!pr.cells.empty() && pr.loops.empty() && pr.cells.size() <= 2) {
        // (a primer gets a VALID origin: a disk with k in the hundreds is affordable only on an invalid one)
        if ((pr.fn == FN_gridDisk || pr.fn == FN_gridDiskDistances || pr.fn == FN_gridDiskUnsafe || pr.fn == FN_gridDiskDistancesUnsafe ||
             pr.fn == FN_gridDiskDistancesSafe || pr.fn == FN_gridRingUnsafe) &&
            !pr.ints.empty() && pr.ints[0] > 6)
            pr.ints[0] = (int64_t)r.range(1, 6);
        H3Index c = pr.cells[0];
        double u = r.unit();
        if (u < 0.4)
            pr.cells[0] = neighborOf(c);
        else if (u < 0.7)
            pr.cells[0] = r.chance(0.5) ? pentagon((int)((c >> 52) & 0xF)) : randCell((int)((c >> 52) & 0xF));
        else
            pr.cells[0] = anyCell();
    } else if (!pr.ints.empty() && pr.cells.empty() && pr.loops.empty()) {
        pr.ints[0] += r.chance(0.5) ? 1 : -1;
    }
    return pr;
}
std::vector<Op> Gen::walk(int n) {
    std::vector<Op> ops;
    static const int latlngFns[] = {FN_latLngToCell};
    static const int cellFns[] = {FN_cellToLatLng, FN_cellToBoundary, FN_cellToParent, FN_cellToCenterChild, FN_cellToChildPos,
                                  FN_cellToChildrenSize, FN_getIcosahedronFaces, FN_cellAreaRads2, FN_cellToVertexes,
                                  FN_originToDirectedEdges, FN_isValidCell, FN_h3ToString, FN_maxFaceCount, FN_isPentagon};
    static const int pairFns[] = {FN_gridDistance, FN_cellToLocalIj, FN_areNeighborCells, FN_cellsToDirectedEdge,
                                  FN_gridPathCellsSize};
    double u = r.unit();
    if (u < 0.3) {
        // points stepping across an icosahedron edge near its midpoint
        int fn = latlngFns[0];
        if (ICOSA_EDGES.empty()) return ops;
        const IcosaEdge &e = ICOSA_EDGES[r.below(ICOSA_EDGES.size())];
        double t = r.chance(0.8) ? r.uniform(-0.008, 0.008) : r.uniform(-0.5, 0.5);
        double step = pow(10.0, r.uniform(-7.5, -4.3)) * (r.chance(0.5) ? 1 : -1);
        double along = step * r.uniform(-0.5, 0.5);
        double d = -step * r.uniform(0.2, 0.8) * n;  // start on one side, end on the other
        if (r.chance(0.5)) {
            // first a call well inside one of the two faces, as a spatially coherent stream would have made
            Op op;
            op.fn = fn;
            double dd = (d > 0 ? 1 : -1) * r.uniform(0.05, 0.3), p[3], l = 0;
            for (int k = 0; k < 3; k++) {
                p[k] = e.m[k] + t * e.u[k] + dd * e.n[k];
                l += p[k] * p[k];
            }
            op.dbls = {asin(p[2] / sqrt(l)), atan2(p[1], p[0])};
            op.ints = {(int64_t)r.below(16)};
            op.tag = "walk-prelude";
            ops.push_back(op);
        }
        int res = r.chance(0.7) ? 15 : 11 + (int)r.below(5);
        for (int i = 0; i < n; i++) {
            double p[3], l = 0;
            for (int k = 0; k < 3; k++) {
                p[k] = e.m[k] + t * e.u[k] + d * e.n[k];
                l += p[k] * p[k];
            }
            Op op;
            op.fn = fn;
            op.dbls = {asin(p[2] / sqrt(l)), atan2(p[1], p[0])};
            op.ints = {res};
            op.tag = "walk-across-icosa-edge";
            ops.push_back(op);
            d += step * r.uniform(0.5, 1.5);
            t += along;
        }
        return ops;
    }
    int res = (int)r.below(16);
    H3Index c = r.chance(0.5) ? nearPentagon(res, 3) : randCell(res);
    if (u >= 0.3 && u < 0.4) {
        // small disks: a long stretch next to a pentagon (the fast traversal fails there every time), then away from it
        static const int diskFns[] = {FN_gridDisk, FN_gridDiskDistances, FN_gridDiskUnsafe, FN_gridRingUnsafe, FN_gridDiskDistancesSafe};
        int fn = diskFns[r.below(5)];
        int k = (int)r.range(1, 2);
        H3Index p = pentagon(res);
        int nearPart = (int)(n * r.uniform(0.5, 0.9));
        H3Index cur = p;
        for (int i = 0; i < n; i++) {
            Op op;
            op.fn = fn;
            op.cells = {cur};
            op.ints = {k};
            if (fn == FN_gridDiskDistances || fn == FN_gridDiskDistancesSafe) op.ints.push_back(r.chance(0.5) ? 1 : 0);
            op.tag = i < nearPart ? "walk-disks-at-pentagon" : "walk-disks-away";
            ops.push_back(op);
            if (i < nearPart) {
                std::vector<H3Index> d = refDisk(p, 1);
                cur = d.empty() ? p : d[r.below(d.size())];
            } else {
                cur = i == nearPart ? atDistanceFrom(p, 6 + (int)r.below(4)) : neighborOf(cur);
            }
        }
        return ops;
    }
    if (u < 0.7) {
        int fn = cellFns[r.below(sizeof cellFns / sizeof cellFns[0])];
        int64_t arg = res;
        if (fn == FN_cellToParent || fn == FN_cellToChildPos) arg = std::max(0, res - (int)r.range(0, 3));
        if (fn == FN_cellToCenterChild || fn == FN_cellToChildrenSize) arg = std::min(15, res + (int)r.range(0, 3));
        if (fn == FN_h3ToString) arg = 17;
        for (int i = 0; i < n; i++) {
            Op op;
            op.fn = fn;
            op.cells = {c};
            op.ints = {arg};
            op.tag = "walk-cells";
            ops.push_back(op);
            c = r.chance(0.1) ? pentagon(res) : neighborOf(c);
        }
        return ops;
    }
    int fn = pairFns[r.below(sizeof pairFns / sizeof pairFns[0])];
    H3Index origin = c;
    for (int i = 0; i < n; i++) {
        Op op;
        op.fn = fn;
        op.cells = fn == FN_areNeighborCells || fn == FN_cellsToDirectedEdge ? std::vector<uint64_t>{c, neighborOf(c)}
                                                                             : std::vector<uint64_t>{origin, c};
        if (fn == FN_cellToLocalIj) op.ints = {0};
        op.tag = "walk-pairs";
        ops.push_back(op);
        c = neighborOf(c);
        if (r.chance(0.08)) origin = c;
    }
    return ops;
}
LatLng Gen::centerOf(H3Index c) {
    LatLng g = {0, 0};
    REF.cellToLatLng(c, &g);
    return g;
}
H3Index Gen::randCell(int res) {
    LatLng g = randPoint();
    H3Index h = 0;
    REF.latLngToCell(&g, res, &h);
    return h;
}
H3Index Gen::pentagon(int res) { return PENT[res][r.below(12)]; }
H3Index Gen::nearPentagon(int res, int maxDist) {
    H3Index p = pentagon(res);
    int d = (int)r.range(1, std::max(1, maxDist));
    std::vector<H3Index> disk = refDisk(p, d);
    if (disk.empty()) return p;
    // prefer the outer ring
    for (int tries = 0; tries < 8; tries++) {
        H3Index c = r.pick(disk);
        int64_t dist = 0;
        if (c != p && REF.gridDistance(p, c, &dist) == E_SUCCESS && dist == d)
            return c;
    }
    return r.pick(disk);
}
H3Index Gen::neighborOf(H3Index c) {
    std::vector<H3Index> disk = refDisk(c, 1);
    std::vector<H3Index> n;
    for (auto h : disk)
        if (h != c) n.push_back(h);
    if (n.empty()) return c;
    return r.pick(n);
}
H3Index Gen::damaged(H3Index c) {
    switch (r.below(9)) {
        case 0:
            return c ^ (1ULL << r.below(64));
        case 1:  // mode
            return (c & ~(0xFULL << 59)) | (r.below(16) << 59);
        case 2:  // reserved bits
            return c | ((1 + r.below(7)) << 56);
        case 3:
            return c | (1ULL << 63);
        case 4: {  // a used digit becomes 7
            int res = (int)((c >> 52) & 0xF);
            if (res == 0) return c ^ (1ULL << r.below(64));
            int d = (int)r.range(1, res);
            return c | (7ULL << ((15 - d) * 3));
        }
        case 5: {  // an unused digit becomes something else
            int res = (int)((c >> 52) & 0xF);
            if (res == 15) return c ^ (1ULL << r.below(64));
            int d = (int)r.range(res + 1, 15);
            return c & ~((1 + r.below(7)) << ((15 - d) * 3));
        }
        case 6:  // base cell out of range
            return (c & ~(0x7FULL << 45)) | ((122 + r.below(6)) << 45);
        case 7:
            return 0;
        default:
            return r.u64();
    }
}
H3Index Gen::anyCell() {
    int res = (int)r.below(16);
    switch (r.below(4)) {
        case 0:
            return pentagon(res);
        case 1:
            return nearPentagon(res, 2);
        default:
            return randCell(res);
    }
}
H3Index Gen::anyCellOrBad() {
    H3Index c = anyCell();
    if (r.chance(0.12)) return damaged(c);
    return c;
}

// ------------------------------------------------------------ compact ----
Op Gen::compactOp() {
    Op op;
    op.fn = FN_compactCells;
    // pipeline inputs: what callers really feed into compactCells — the raw,
    // zero-padded output array of gridDisk near a pentagon (zeros in the
    // middle, at the end, sometimes first) or of polygonToCells (hash layout,
    // mostly zeros, frequently starting with a zero)
    if (r.chance(0.12)) {
        int res = (int)r.range(1, 15);
        int k = (int)r.range(1, 6);
        H3Index origin = r.chance(0.7) ? nearPentagon(res, k) : pentagon(res);
        int64_t sz = 3 * (int64_t)k * (k + 1) + 1;  // closed form: never sized by the tree under test
        std::vector<H3Index> raw((size_t)sz, 0);
        REF.gridDisk(origin, k, raw.data());
        if (r.chance(0.4)) {  // zeros first: rotate so that a zero leads
            for (size_t i = 0; i < raw.size(); i++)
                if (raw[i] == 0) {
                    std::rotate(raw.begin(), raw.begin() + i, raw.end());
                    break;
                }
        }
        if (r.chance(0.3)) raw.insert(raw.begin(), (size_t)r.range(1, 3), 0);
        op.cells = raw;
        op.tag = "pipeline-raw-gridDisk";
        return op;
    }
    if (r.chance(0.08)) {
        Op poly = polygonOp(FN_polygonToCells, 300);
        Result rr = execOp(REF, poly, ExecOpts());
        if (rr.status == CALL_RETURNED && rr.rc == E_SUCCESS && rr.out.size() >= 8) {
            op.cells.resize(rr.out.size() / 8);
            memcpy(op.cells.data(), rr.out.data(), op.cells.size() * 8);
            if (op.cells.size() > 4000) op.cells.resize(4000);
            op.tag = "pipeline-raw-polygonToCells";
            return op;
        }
    }
    // very large sets (117 649 .. 352 947 cells: complete 6-level sub-trees): whatever a change does "only for big
    // inputs" (megabyte-sized scratch arrays) has to happen here
    if (r.chance(boost ? 0.02 : 0.004)) {
        int R = (int)r.range(6, 15);
        int parents = boost ? (int)r.range(1, 3) : (int)r.range(1, 2);
        for (int i = 0; i < parents; i++) {
            H3Index p = r.chance(0.3) ? pentagon(R - 6) : randCell(R - 6);
            std::vector<H3Index> ch = refChildren(p, R);
            op.cells.insert(op.cells.end(), ch.begin(), ch.end());
        }
        {
            std::set<H3Index> seen;
            std::vector<H3Index> u;
            for (auto c : op.cells)
                if (seen.insert(c).second) u.push_back(c);
            op.cells.swap(u);
        }
        int drop = (int)r.range(0, 3);
        for (int i = 0; i < drop && !op.cells.empty(); i++) op.cells.erase(op.cells.begin() + r.below(op.cells.size()));
        if (r.chance(0.5)) r.shuffle(op.cells);
        op.tag = "huge-subtrees";
        return op;
    }
    // sub-trees built from raw digits, valid or not: all seven digits 0..6 under a pentagon parent (digit 1 is its
    // deleted sub-sequence) or all eight digits 0..7 under a hexagon.  Such cells pass the first round(s) like any
    // others; the sibling count then exceeds its limit in a LATER round, which is the only way to take an error exit
    // of compactCells after the first round without an allocation failure
    if (r.chance(0.05)) {
        int depth = (int)r.range(2, 3);
        int R = (int)r.range(depth, 15);
        bool pent = r.chance(0.5);
        H3Index top = pent ? pentagon(R - depth) : randCell(R - depth);
        int ndig = pent ? 7 : 8;
        std::vector<H3Index> level = {top};
        for (int d = 1; d <= depth; d++) {
            int childRes = R - depth + d;
            std::vector<H3Index> next;
            for (auto p : level) {
                // only the top parent gets the illegal fan-out; below it ordinary children (digits 0..6)
                int fan = d == 1 ? ndig : 7;
                for (int dig = 0; dig < fan; dig++) {
                    H3Index c = (p & ~((H3Index)0xF << 52)) | ((H3Index)childRes << 52);
                    int shift = (15 - childRes) * 3;
                    c = (c & ~((H3Index)7 << shift)) | ((H3Index)dig << shift);
                    next.push_back(c);
                }
            }
            level.swap(next);
        }
        op.cells = level;
        int extras = (int)r.below(6);
        for (int i = 0; i < extras; i++) op.cells.push_back(randCell(R));
        if (r.chance(0.7)) r.shuffle(op.cells);
        op.tag = pent ? "raw-digits-under-pentagon" : "raw-digits-0-7";
        return op;
    }
    // whole base cells: compaction proceeds all the way to resolution 0
    if (r.chance(0.1)) {
        int R = r.chance(0.7) ? 1 : 2;
        int n = (int)r.range(1, R == 1 ? 122 : 24);
        std::vector<int> bcs;
        for (int i = 0; i < 122; i++) bcs.push_back(i);
        r.shuffle(bcs);
        for (int i = 0; i < n; i++) {
            std::vector<H3Index> ch = refChildren(RES0[bcs[i]], R);
            op.cells.insert(op.cells.end(), ch.begin(), ch.end());
        }
        if (r.chance(0.3) && !op.cells.empty()) op.cells.erase(op.cells.begin() + r.below(op.cells.size()));
        if (r.chance(0.7)) r.shuffle(op.cells);
        op.tag = "whole-basecells-to-res0";
        return op;
    }
    int R = (int)r.range(1, 15);
    if (r.chance(0.5)) R = (int)r.range(1, 6);
    std::vector<H3Index> cells;
    int m = (int)r.range(1, boost ? 6 : 4);
    int maxDepth = 0;
    for (int i = 0; i < m; i++) {
        int d = 1;
        double u = r.unit();
        if (u > 0.4) d = 2;
        if (u > 0.7) d = 3;
        if (u > 0.9) d = 4;
        if (boost && u > 0.97) d = 5;
        if (d > R) d = R;
        int pr = R - d;
        H3Index parent;
        double v = r.unit();
        if (v < 0.3)
            parent = pentagon(pr);
        else if (v < 0.5)
            parent = nearPentagon(pr, 2);
        else
            parent = randCell(pr);
        std::vector<H3Index> ch = refChildren(parent, R);
        cells.insert(cells.end(), ch.begin(), ch.end());
        maxDepth = std::max(maxDepth, d);
    }
    int extras = (int)r.below(20);
    for (int i = 0; i < extras; i++) cells.push_back(randCell(R));
    if (r.chance(0.5)) {
        static const double qs[] = {0.002, 0.02, 0.2, 0.6};
        double q = qs[r.below(4)];
        std::vector<H3Index> kept;
        for (auto c : cells)
            if (!r.chance(q)) kept.push_back(c);
        cells.swap(kept);
    }
    {  // distinct
        std::set<H3Index> seen;
        std::vector<H3Index> u;
        for (auto c : cells)
            if (seen.insert(c).second) u.push_back(c);
        cells.swap(u);
    }
    if (r.chance(0.8)) r.shuffle(cells);
    op.tag = "subtrees-d" + std::to_string(maxDepth);
    if (r.chance(0.35) || cells.empty()) {
        switch (r.below(8)) {
            case 0: {
                if (cells.empty()) cells.push_back(randCell(R));
                int nd = (int)r.range(1, 3);
                for (int i = 0; i < nd; i++) {
                    H3Index c = r.pick(cells);
                    cells.insert(cells.begin() + r.below(cells.size() + 1), c);
                }
                op.tag = "dup";
                break;
            }
            case 1:
                if (cells.empty()) cells.push_back(randCell(R));
                cells[r.below(cells.size())] |= ((1 + r.below(7)) << 56);
                op.tag = "reserved-bits";
                break;
            case 2: {
                if (cells.empty()) cells.push_back(randCell(R));
                int other = (int)r.below(16);
                cells[r.below(cells.size())] = randCell(other);
                op.tag = "mixed-res";
                break;
            }
            case 3: {
                int nz = (int)r.range(1, 5);
                for (int i = 0; i < nz; i++)
                    cells.insert(cells.begin() + r.below(cells.size() + 1), 0);
                op.tag = "nulls";
                break;
            }
            case 4: {
                cells.clear();
                int n = (int)r.range(1, 122);
                for (int i = 0; i < n; i++) cells.push_back(RES0[r.below(122)]);
                op.tag = "res0";
                break;
            }
            case 5:
                cells.clear();
                op.tag = "empty";
                break;
            case 6:
                if (cells.empty()) cells.push_back(randCell(R));
                {
                    size_t i = r.below(cells.size());
                    cells[i] = damaged(cells[i]);
                }
                op.tag = "damaged";
                break;
            default: {
                H3Index c = cells.empty() ? randCell(R) : r.pick(cells);
                int n = (int)r.range(2, 40);
                cells.assign((size_t)n, c);
                op.tag = "all-same";
                break;
            }
        }
    }
    op.cells = cells;
    return op;
}

// --------------------------------------------------------------- disks ----
Op Gen::diskOp(bool distancesFn) {
    Op op;
    op.fn = distancesFn ? FN_gridDiskDistances : FN_gridDisk;
    int res = (int)r.below(16);
    int k = (int)r.below(6);
    if (r.chance(0.3)) k = (int)r.range(0, boost ? 45 : 20);
    // heavy tail, bounded by cost: the library's fallback traversal takes 4 s at k = 64 and 71 s at k = 100 next to
    // a pentagon (measured on the unchanged tree), against milliseconds up to k = 50
    if (r.chance(0.04)) k = (int)r.range(21, boost ? 56 : 50);
    H3Index origin;
    double u = r.unit();
    if (u < 0.35) {
        origin = pentagon(res);
        op.tag = "pent-origin";
    } else if (u < 0.7) {
        origin = nearPentagon(res, std::max(1, k));
        op.tag = "near-pent";
    } else if (u < 0.9) {
        origin = randCell(res);
        op.tag = "far";
    } else {
        origin = damaged(r.chance(0.5) ? pentagon(res) : randCell(res));
        op.tag = "damaged";
    }
    if (op.tag == "damaged" && r.chance(0.3)) {
        // an invalid origin fails the fast traversal at once and the fallback returns at its first step, so
        // very large k is cheap here: the fallback's scratch array gets as large as the harness's buffers allow
        k = (int)r.range(51, 1100);
        // (a bit-flipped valid cell is usually still traversable, and then k in the hundreds costs minutes: only
        // indexes whose base cell number is out of range are used here)
        static const H3Index hard[] = {0x7fffffffffffffffULL, 0xffffffffffffffffULL, 0x08ffffffffffffffULL};
        origin = r.chance(0.5) ? hard[r.below(3)] : (randCell(res) | ((H3Index)0x7f << 45));
        op.tag = "invalid-origin-huge-k";
    }
    op.cells.push_back(origin);
    op.ints.push_back(k);
    if (distancesFn) op.ints.push_back(r.chance(0.4) ? 1 : 0);
    if (r.chance(0.03)) {
        op.ints[0] = -1 - (int64_t)r.below(3);
        op.tag = "neg-k";
    }
    return op;
}

// ----------------------------------------------------------- neighbors ----
Op Gen::neighborsOp() {
    Op op;
    op.fn = FN_areNeighborCells;
    int res = (int)r.below(16);
    if (r.chance(0.4)) res = (int)r.below(4);
    H3Index a;
    double u = r.unit();
    if (u < 0.35) {
        a = pentagon(res);
        op.tag = "pent";
    } else if (u < 0.6) {
        a = nearPentagon(res, 1);
        op.tag = "touch-pent";
    } else if (u < 0.75) {
        a = nearPentagon(res, 2);
        op.tag = "near-pent";
    } else {
        a = randCell(res);
        op.tag = "far";
    }
    H3Index b;
    double v = r.unit();
    if (v < 0.45) {
        b = neighborOf(a);
        op.tag += "+nbr";
    } else if (v < 0.65) {
        b = neighborOf(neighborOf(a));
        op.tag += "+nbr2";
    } else if (v < 0.75) {
        b = randCell(res);
        op.tag += "+rand";
    } else if (v < 0.8) {
        b = a;
        op.tag += "+same";
    } else if (v < 0.88) {
        b = randCell((int)r.below(16));
        op.tag += "+otherres";
    } else {
        b = damaged(neighborOf(a));
        op.tag += "+damaged";
    }
    if (r.chance(0.5)) std::swap(a, b);
    op.cells = {a, b};
    return op;
}

// ------------------------------------------------------------ polygons ----
void Gen::polygonAround(LatLng c, double R, Op &op) {
    double cosLat = std::max(0.05, cos(c.lat));
    auto vert = [&](double theta, double f) {
        LatLng g;
        g.lat = c.lat + R * f * sin(theta);
        if (g.lat > PI / 2) g.lat = PI / 2;
        if (g.lat < -PI / 2) g.lat = -PI / 2;
        g.lng = wrapLng(c.lng + R * f * cos(theta) / cosLat);
        return g;
    };
    std::vector<LatLng> outer;
    int shape = (int)r.below(5);
    double rot = r.uniform(0, 2 * PI);
    bool cw = r.chance(0.5);
    switch (shape) {
        case 0: {  // lat/lng rectangle
            double h = R * r.uniform(0.3, 1.0), w = R * r.uniform(0.3, 1.0) / cosLat;
            LatLng a = {c.lat + h, wrapLng(c.lng - w)}, b = {c.lat + h, wrapLng(c.lng + w)},
                   d = {c.lat - h, wrapLng(c.lng + w)}, e = {c.lat - h, wrapLng(c.lng - w)};
            for (LatLng *p : {&a, &b, &d, &e}) {
                if (p->lat > PI / 2) p->lat = PI / 2;
                if (p->lat < -PI / 2) p->lat = -PI / 2;
            }
            outer = {a, b, d, e};
            op.tag += "rect";
            break;
        }
        case 1: {  // convex n-gon with jitter
            int n = (int)r.range(3, 12);
            // heavy tail: loops with hundreds of vertices (anything sized "for up to N vertices" must meet N+1)
            if (r.chance(0.06)) n = (int)r.range(13, r.chance(0.3) ? 700 : 140);
            for (int i = 0; i < n; i++)
                outer.push_back(
                    vert(rot + 2 * PI * i / n, r.uniform(0.85, 1.0)));
            op.tag += "ngon";
            break;
        }
        case 2: {  // star (concave)
            int n = 2 * (int)r.range(3, 8);
            for (int i = 0; i < n; i++)
                outer.push_back(vert(rot + 2 * PI * i / n,
                                     (i & 1) ? r.uniform(0.25, 0.5) : 1.0));
            op.tag += "star";
            break;
        }
        case 3: {  // needle
            double w = r.uniform(0.01, 0.08);
            outer.push_back(vert(rot, 1.0));
            outer.push_back(vert(rot + PI / 2, w));
            outer.push_back(vert(rot + PI, 1.0));
            outer.push_back(vert(rot - PI / 2, w));
            op.tag += "needle";
            break;
        }
        default: {  // triangle
            for (int i = 0; i < 3; i++)
                outer.push_back(vert(rot + 2 * PI * i / 3 + r.uniform(-0.4, 0.4),
                                     r.uniform(0.5, 1.0)));
            op.tag += "tri";
            break;
        }
    }
    if (cw) std::reverse(outer.begin(), outer.end());
    op.loops.push_back(outer);
    int nh = 0;
    double u = r.unit();
    if (u > 0.55) nh = 1;
    if (u > 0.75) nh = 2;
    if (u > 0.88) nh = 3;
    if (u > 0.95) nh = 4;
    if (u > 0.975) nh = (int)r.range(5, r.chance(0.3) ? 70 : 20);  // heavy tail: many holes
    for (int h = 0; h < nh; h++) {
        double hr = R * r.uniform(0.08, 0.3);
        double ho = R * r.uniform(0.0, 0.45), ha = r.uniform(0, 2 * PI);
        LatLng hc = {c.lat + ho * sin(ha), wrapLng(c.lng + ho * cos(ha) / cosLat)};
        int n = (int)r.range(3, 7);
        double hrot = r.uniform(0, 2 * PI);
        std::vector<LatLng> hole;
        double hcos = std::max(0.05, cos(hc.lat));
        for (int i = 0; i < n; i++) {
            LatLng g;
            g.lat = hc.lat + hr * sin(hrot + 2 * PI * i / n);
            g.lng = wrapLng(hc.lng + hr * cos(hrot + 2 * PI * i / n) / hcos);
            if (g.lat > PI / 2) g.lat = PI / 2;
            if (g.lat < -PI / 2) g.lat = -PI / 2;
            hole.push_back(g);
        }
        op.loops.push_back(hole);
    }
    op.tag += "-h" + std::to_string(nh);
    // GeoJSON-style closed rings: the first vertex repeated, bit for bit, at the end (outer loop, holes, or both)
    if (r.chance(0.15)) {
        int which = (int)r.below(3);
        for (size_t i = 0; i < op.loops.size(); i++)
            if (!op.loops[i].empty() && (which == 2 || (which == 0) == (i == 0))) op.loops[i].push_back(op.loops[i].front());
        op.tag += "+closed-rings";
    }
}

Op Gen::polygonOp(int fn, int maxCells) {
    Op op;
    op.fn = fn;
    int res = (int)r.below(16);
    if (r.chance(0.5)) res = (int)r.range(1, 8);
    // centre
    LatLng c;
    double u = r.unit();
    if (u < 0.4) {
        c = centerOf(pentagon(res));
        op.tag = "pent/";
    } else if (u < 0.6) {
        c = centerOf(nearPentagon(res, 2));
        op.tag = "nearpent/";
    } else if (u < 0.85) {
        c = randPoint();
        op.tag = "rand/";
    } else if (u < 0.93) {
        c.lat = r.uniform(-1.2, 1.2);
        c.lng = (r.chance(0.5) ? PI : -PI) + r.uniform(-1, 1) * edgeLenRads(res);
        c.lng = wrapLng(c.lng);
        op.tag = "antimeridian/";
    } else {
        c.lat = (r.chance(0.5) ? 1 : -1) * (PI / 2 - r.uniform(0, 3) * edgeLenRads(res));
        c.lng = r.uniform(-PI, PI);
        op.tag = "pole/";
    }
    // radius in edge lengths, bounded by the cell budget
    double maxRe = sqrt((double)maxCells / 1.3);
    double re;
    double w = r.unit();
    if (w < 0.5)
        re = r.uniform(0.3, 3);
    else if (w < 0.85)
        re = r.uniform(3, 10);
    else
        re = r.uniform(10, 40);
    // the large size classes must actually be large: most of their polygons use (half to all of) the radius the
    // cell budget allows, instead of the 40 edge lengths at which the ordinary classes stop
    if (maxCells >= 20000 && r.chance(0.8)) re = maxRe * r.uniform(0.5, 1.0);
    if (re > maxRe) re = maxRe;
    double R = re * edgeLenRads(res);
    if (R > 1.0) R = 1.0;
    polygonAround(c, R, op);
    uint32_t flags = (uint32_t)r.below(4);
    if (fn == FN_polygonToCells && r.chance(0.6)) flags = 0;
    // malformed variants
    if (r.chance(0.2)) {
        switch (r.below(11)) {
            case 0:
                op.loops.clear();
                op.loops.push_back({});
                op.tag += "+0verts";
                break;
            case 1:
                op.loops[0].resize(1);
                op.tag += "+1vert";
                break;
            case 2:
                op.loops[0].resize(2);
                op.tag += "+2verts";
                break;
            case 3:
            case 4:
            case 5: {
                // one special value in one coordinate of one vertex (or of all
                // vertices) of the outer loop or of a hole
                static const double specials[] = {NAN,      INFINITY, -INFINITY, 1e308,  -1e308,
                                                  100.0,    -100.0,   4.0,       -4.0,   1e-320,
                                                  -0.0,     1.5707963267948966,  -1.5707963267948966,
                                                  3.141592653589793, -3.141592653589793};
                double v = specials[r.below(sizeof specials / sizeof specials[0])];
                if (r.chance(0.55)) v = specials[r.below(3)];  // NaN and the infinities matter most
                bool inHole = r.chance(0.3);
                if (inHole && op.loops.size() < 2) op.loops.push_back(op.loops[0]);
                std::vector<LatLng> &loop = op.loops[inHole ? 1 : 0];
                bool lat = r.chance(0.5);
                bool all = r.chance(0.15);
                size_t at = r.below(loop.size());
                for (size_t i = 0; i < loop.size(); i++)
                    if (all || i == at) (lat ? loop[i].lat : loop[i].lng) = v;
                char b[64];
                snprintf(b, sizeof b, "+special-%s-%s%s", inHole ? "hole" : "outer", lat ? "lat" : "lng",
                         all ? "-all" : "");
                op.tag += b;
                if (std::isnan(v)) op.tag += "-nan";
                if (std::isinf(v)) op.tag += "-inf";
                break;
            }
            case 6:
                res = -1 - (int)r.below(2);
                op.tag += "+res-neg";
                break;
            case 7:
                res = 16 + (int)r.below(3);
                op.tag += "+res-big";
                break;
            case 8:
                flags = 4 + (uint32_t)r.below(12);
                op.tag += "+flags-mode";
                break;
            case 9:
                flags = (uint32_t)(r.below(4) | (1u << r.range(4, 31)));
                op.tag += "+flags-bits";
                break;
            default:
                op.loops.push_back({});
                op.tag += "+empty-hole";
                break;
        }
    }
    op.ints = {res, (int64_t)flags};
    // keep within the cell budget: coarsen until the estimate fits
    auto estimate = [&](int rr) -> int64_t {
        Op tmp = op;
        GeoPolygon gp;
        memset(&gp, 0, sizeof gp);
        std::vector<GeoLoop> holes;
        if (!tmp.loops.empty()) {
            gp.geoloop.numVerts = (int)tmp.loops[0].size();
            gp.geoloop.verts = tmp.loops[0].data();
            for (size_t i = 1; i < tmp.loops.size(); i++) {
                GeoLoop g;
                g.numVerts = (int)tmp.loops[i].size();
                g.verts = tmp.loops[i].data();
                holes.push_back(g);
            }
            gp.numHoles = (int)holes.size();
            gp.holes = holes.empty() ? nullptr : holes.data();
        }
        int64_t sz = 0;
        if (REF.maxPolygonToCellsSize(&gp, rr, 0, &sz) != E_SUCCESS) return -1;
        return sz;
    };
    if (res >= 0 && res <= 15) {
        int rr = res;
        while (rr > 0) {
            int64_t e = estimate(rr);
            if (e < 0 || e <= (int64_t)maxCells * 4) break;
            rr--;
        }
        if (rr != res) {
            op.ints[0] = rr;
            op.tag += "+coarsened";
        }
        if (rr == 0) {
            int64_t e = estimate(0);
            (void)e;
        }
    }
    if (fn == FN_polygonToCellsExperimental || fn == FN_maxPolygonToCellsSizeExperimental) {
        // A polygon with a non-finite or out-of-range vertex makes the iterator-based functions
        // (and their own size estimate, whose area heuristic degenerates on NaN) walk the whole
        // grid at the target resolution.  That is legal but unbounded work, so such polygons are
        // only issued at resolutions 0..2 (<= 5882 cells).  Decided from the data, never from a clock.
        bool unbounded = false;
        for (auto &l : op.loops)
            for (auto &v : l)
                if (!std::isfinite(v.lat) || !std::isfinite(v.lng) || fabs(v.lat) > PI / 2 ||
                    fabs(v.lng) > PI)
                    unbounded = true;
        if (unbounded && op.ints[0] > 2 && op.ints[0] <= 15) {
            op.ints[0] = (int64_t)r.below(3);
            op.tag += "+res<=2";
        }
    }
    if (fn == FN_polygonToCellsExperimental || fn == FN_maxPolygonToCellsSizeExperimental) {
        // the legacy estimate fails for unbounded polygons (infinite vertices) while the
        // iterator-based functions walk the whole grid for them: bound by their own estimate
        for (;;) {
            Op sz = op;
            sz.fn = FN_maxPolygonToCellsSizeExperimental;
            Result rs = execOp(REF, sz, ExecOpts());
            int64_t est = 0;
            if (rs.status == CALL_RETURNED && rs.rc == E_SUCCESS && rs.out.size() >= 8)
                memcpy(&est, rs.out.data(), 8);
            if (est <= (int64_t)maxCells * 8 || op.ints[0] <= 0 || op.ints[0] > 15) break;
            op.ints[0]--;
            if (op.tag.find("+coarsened") == std::string::npos) op.tag += "+coarsened";
        }
    }
    if (fn == FN_polygonToCellsExperimental) {
        // capacity argument: exact bound, or deliberately too small
        Op sz = op;
        sz.fn = FN_maxPolygonToCellsSizeExperimental;
        Result rs = execOp(REF, sz, ExecOpts());
        int64_t cap = 16;
        if (rs.status == CALL_RETURNED && rs.rc == E_SUCCESS && rs.out.size() >= 8)
            memcpy(&cap, rs.out.data(), 8);
        if (cap < 0) cap = 0;
        if (cap > 2000000) cap = 2000000;
        double t = r.unit();
        if (t < 0.7) {
            op.tag += "+cap-exact";
        } else if (t < 0.85) {
            cap = cap / 2;
            op.tag += "+cap-half";
        } else if (t < 0.93) {
            cap = cap > 0 ? (int64_t)r.below((uint64_t)cap) : 0;
            op.tag += "+cap-rand";
        } else if (t < 0.975) {
            cap = 0;
            op.tag += "+cap-zero";
        } else {
            cap = r.chance(0.5) ? -1 : -(int64_t)r.range(2, 4000000);  // a negative capacity is an argument like any other
            op.tag += "+cap-negative";
        }
        op.ints.push_back(cap);
    }
    if (fn == FN_polygonToCells && r.chance(0.07)) {
        // the caller's output array is documented as zero-filled; an array that is not (reused without clearing)
        // fills the function's open-addressing table and drives it onto its E_FAILED exit with all three scratch
        // arrays live — an error path no well-formed call reaches (ints[2]: 1 = every slot occupied, 2 = every
        // other slot occupied)
        op.ints.push_back(r.chance(0.6) ? 1 : 2);
        op.tag += "+dirty-out";
    }
    return op;
}

// -------------------------------------------------------------- C17 mix ----
Op Gen::c17OpFor(int fn) {
    switch (fn) {
        case FN_compactCells:
            return compactOp();
        case FN_gridDisk:
            return diskOp(false);
        case FN_gridDiskDistances:
            return diskOp(true);
        case FN_areNeighborCells:
            return neighborsOp();
        default: {
            int maxCells = 300;
            double u = r.unit();
            if (u > 0.75) maxCells = 3000;
            if (u > 0.985) maxCells = 60000;   // (scratch arrays above the 32 768-entry mark in every run)
            if (boost && u > 0.99) maxCells = 200000;
            // size estimates in the millions (multi-megabyte scratch arrays): rare, but present in both tiers
            if (u > (boost ? 0.994 : 0.998)) maxCells = boost ? 2000000 : 300000;
            return polygonOp(fn, maxCells);
        }
    }
}
Op Gen::c17Op() {
    static const int fns[] = {FN_compactCells,
                              FN_compactCells,
                              FN_gridDisk,
                              FN_gridDiskDistances,
                              FN_areNeighborCells,
                              FN_areNeighborCells,
                              FN_polygonToCells,
                              FN_polygonToCells,
                              FN_polygonToCellsExperimental,
                              FN_polygonToCellsExperimental,
                              FN_maxPolygonToCellsSizeExperimental};
    return c17OpFor(fns[r.below(sizeof fns / sizeof fns[0])]);
}

// ----------------------------------------------------------------- C16 ----
std::vector<H3Index> Gen::cellSet(int maxCells, std::string &tag) {
    int res = (int)r.below(16);
    std::vector<H3Index> cells;
    // concentric hollow rings: holes nested in several outer loops (islands in
    // holes in islands ...), which is what findPolygonForHole has to sort out
    if (r.chance(0.12)) {
        int rings = (int)r.range(2, 5);
        if (r.chance(0.15)) rings = (int)r.range(6, 13);  // heavy tail: a hole inside up to 13 outer loops
        H3Index center = r.chance(0.3) ? nearPentagon(res, 3) : randCell(res);
        int radius = 1;
        std::set<H3Index> acc;
        for (int i = 0; i < rings; i++) {
            std::vector<H3Index> outer = refDisk(center, radius), inner = refDisk(center, radius - 1);
            std::set<H3Index> in(inner.begin(), inner.end());
            for (auto c : outer)
                if (!in.count(c)) acc.insert(c);
            radius += 2;
        }
        if (r.chance(0.3)) acc.insert(center);
        cells.assign(acc.begin(), acc.end());
        if (r.chance(0.7)) r.shuffle(cells);
        tag = "concentric-rings-" + std::to_string(rings) + " ";
        return cells;
    }
    // footprints that wrap a pole or most of the globe: their outlines are classified clockwise, so
    // normalizeMultiPolygon meets holes without any outer loop (E_FAILED exits that ordinary disks never take)
    if (r.chance(0.06)) {
        int pres = (int)r.below(maxCells >= 2000 ? 6 : 5);
        int which = (int)r.below(3);  // 0 north, 1 south, 2 both
        std::set<H3Index> acc;
        for (int pole = 0; pole < 2; pole++) {
            if (which != 2 && which != pole) continue;
            LatLng g;
            g.lat = pole == 0 ? PI / 2 : -PI / 2;
            g.lng = 0;
            H3Index c = 0;
            REF.latLngToCell(&g, pres, &c);
            int k = (int)r.range(0, 4);
            for (auto x : refDisk(c, k))
                if (k < 2 || !r.chance(0.05)) acc.insert(x);
        }
        cells.assign(acc.begin(), acc.end());
        if (r.chance(0.7)) r.shuffle(cells);
        tag = std::string("polar-") + (which == 0 ? "north" : which == 1 ? "south" : "both") + " ";
        return cells;
    }
    if (r.chance(0.05)) {
        int gres = maxCells >= 6000 && r.chance(0.3) ? 2 : (maxCells < 200 ? 0 : (int)r.below(2));
        std::vector<H3Index> all;
        for (int b = 0; b < 122; b++) {
            H3Index bc = RES0[b];
            if (gres == 0)
                all.push_back(bc);
            else
                for (auto x : refChildren(bc, gres)) all.push_back(x);
        }
        int gaps = (int)r.range(1, 4);
        std::set<H3Index> drop;
        for (int gI = 0; gI < gaps; gI++) {
            H3Index c = all[r.below(all.size())];
            for (auto x : refDisk(c, (int)r.below(gres + 1))) drop.insert(x);
        }
        for (auto x : all)
            if (!drop.count(x)) cells.push_back(x);
        if (r.chance(0.5)) r.shuffle(cells);
        tag = "globe-res" + std::to_string(gres) + "-minus-" + std::to_string(gaps) + "-gaps ";
        return cells;
    }
    if (r.chance(0.05)) {
        // sparse sets of cells whose boundaries carry distortion vertices (pentagons of a Class III resolution have
        // ten vertices, cells crossing an icosahedron edge up to eight): more edges per cell than the six a
        // hexagon has, which is what fixed "six per cell" capacity estimates get wrong
        std::set<H3Index> acc;
        int npent = (int)r.range(5, 12);
        std::vector<int> order;
        for (int i = 0; i < 12; i++) order.push_back(i);
        r.shuffle(order);
        for (int i = 0; i < npent; i++) acc.insert(PENT[res][order[i]]);
        int extra = (int)r.range(0, 24);
        for (int i = 0, tries = 0; i < extra && tries < 400; tries++) {
            H3Index c = r.chance(0.5) ? nearPentagon(res, 2) : randCell(res);
            CellBoundary cb;
            if (REF.cellToBoundary(c, &cb) == E_SUCCESS && cb.numVerts > 6) {
                acc.insert(c);
                i++;
            }
        }
        cells.assign(acc.begin(), acc.end());
        if (r.chance(0.7)) r.shuffle(cells);
        tag = "distorted-singles-" + std::to_string(cells.size()) + " ";
        return cells;
    }
    if (r.chance(0.05)) {
        // exact archipelago: exactly n well-separated components (single cells and rings with a one-cell hole), n at and
        // around the sizes a fixed-capacity scratch array would have (..., 15, 16, 17, ..., 63, 64, 65, ...)
        static const int NS[] = {7, 8, 9, 15, 16, 17, 31, 32, 33, 63, 64, 65, 127, 128, 129};
        int n = NS[r.below(maxCells >= 2000 ? 15 : 12)];
        H3Index anchor = r.chance(0.3) ? nearPentagon(res, 6) : randCell(res);
        std::vector<H3Index> field = refDisk(anchor, 30);
        r.shuffle(field);
        std::vector<H3Index> picked;
        for (auto c : field) {
            if ((int)picked.size() >= n) break;
            bool ok = true;
            for (auto p : picked) {
                int64_t d = 0;
                if (REF.gridDistance(p, c, &d) != E_SUCCESS || d < 4) {
                    ok = false;
                    break;
                }
            }
            if (ok) picked.push_back(c);
        }
        std::set<H3Index> acc;
        int rings = 0;
        for (size_t i = 0; i < picked.size(); i++) {
            bool ring = i == 0 || r.chance(0.3);  // at least one hole
            if (!ring) {
                acc.insert(picked[i]);
            } else {
                rings++;
                for (auto x : refDisk(picked[i], 1))
                    if (x != picked[i]) acc.insert(x);
            }
        }
        cells.assign(acc.begin(), acc.end());
        if (r.chance(0.7)) r.shuffle(cells);
        tag = "exact-archipelago-" + std::to_string(picked.size()) + "-components-" + std::to_string(rings) + "-rings ";
        return cells;
    }
    if (maxCells >= 12000 ? r.chance(0.01) : r.chance(0.0008)) {
        // very many isolated cells (tens of thousands of components, > 130 000 edges): whatever grows or rehashes "only
        // for big graphs" has to happen here
        int n = (int)r.range(22000, maxCells >= 12000 ? 60000 : 26000);
        // (resolutions 5..10 only: from resolution 12 on the library's vertex hash degenerates to a few buckets and
        // a set of this size takes minutes on the unchanged tree)
        int fres = (int)r.range(5, 10);
        std::set<H3Index> acc;
        while ((int)acc.size() < n) acc.insert(randCell(fres));
        cells.assign(acc.begin(), acc.end());
        tag = "isolated-" + std::to_string(n) + " ";
        return cells;
    }
    if (r.chance(0.06)) {
        // archipelago: many small components (single cells, 1-disks, rings with a one-cell hole), more outer
        // loops than any small fixed-size scratch array would hold
        int n = (int)r.range(4, maxCells >= 2000 ? 120 : 48);
        std::set<H3Index> acc;
        H3Index anchor = r.chance(0.3) ? nearPentagon(res, 2) : randCell(res);
        std::vector<H3Index> field = refDisk(anchor, std::min(30, 4 + (int)sqrt((double)n) * 3));
        for (int i = 0; i < n; i++) {
            H3Index c = field[r.below(field.size())];
            int shape = (int)r.below(3);
            if (shape == 0) {
                acc.insert(c);
            } else {
                for (auto x : refDisk(c, 1))
                    if (shape == 1 || x != c) acc.insert(x);
            }
        }
        cells.assign(acc.begin(), acc.end());
        if (r.chance(0.7)) r.shuffle(cells);
        tag = "archipelago-" + std::to_string(n) + " ";
        return cells;
    }
    if (r.chance(0.04)) {
        // a line of cells (grid path) and a closed chain of lines: long outlines with few cells
        H3Index a = r.chance(0.3) ? nearPentagon(res, 4) : randCell(res);
        std::set<H3Index> acc;
        int legs = (int)r.range(1, 4);
        H3Index cur = a;
        for (int l = 0; l < legs; l++) {
            H3Index b = cur;
            int steps = (int)r.range(2, std::min(40, std::max(3, maxCells / 8)));
            for (int i = 0; i < steps; i++) b = neighborOf(b);
            int64_t sz = 0;
            if (REF.gridPathCellsSize(cur, b, &sz) == E_SUCCESS && sz > 0 && sz < 4000) {
                std::vector<H3Index> path((size_t)sz + 64, 0);
                if (REF.gridPathCells(cur, b, path.data()) == E_SUCCESS)
                    for (auto x : path)
                        if (x) acc.insert(x);
            }
            cur = b;
        }
        acc.insert(a);
        cells.assign(acc.begin(), acc.end());
        if (r.chance(0.7)) r.shuffle(cells);
        tag = "path-" + std::to_string(legs) + "-legs ";
        return cells;
    }
    int comps = 1;
    double u = r.unit();
    if (u > 0.6) comps = 2;
    if (u > 0.85) comps = 3;
    tag = "";
    for (int ci = 0; ci < comps; ci++) {
        H3Index center;
        double v = r.unit();
        if (v < 0.3) {
            center = pentagon(res);
            tag += "pent";
        } else if (v < 0.5) {
            center = nearPentagon(res, 3);
            tag += "nearpent";
        } else if (v < 0.85) {
            center = randCell(res);
            tag += "rand";
        } else {
            LatLng g;
            g.lat = r.uniform(-1.3, 1.3);
            g.lng = wrapLng(PI + r.uniform(-2, 2) * edgeLenRads(res));
            center = 0;
            REF.latLngToCell(&g, res, &center);
            tag += "antimeridian";
        }
        int kmax = (int)sqrt((double)maxCells / (3.0 * comps));
        if (kmax > 30) kmax = 30;
        int k = (int)r.range(0, std::max(0, kmax));
        if (r.chance(0.5)) k = (int)r.range(0, std::min(kmax, 4));
        std::vector<H3Index> disk = refDisk(center, k);
        static const double qs[] = {0, 0, 0.05, 0.3, 0.6};
        double q = qs[r.below(5)];
        for (auto c : disk)
            if (!r.chance(q)) cells.push_back(c);
        tag += "-k" + std::to_string(k) + (q > 0 ? "-holes " : " ");
    }
    std::set<H3Index> seen;
    std::vector<H3Index> uq;
    for (auto c : cells)
        if (seen.insert(c).second) uq.push_back(c);
    if (r.chance(0.7)) r.shuffle(uq);
    return uq;
}

Op Gen::c16Op(int maxCells) {
    Op op;
    op.fn = FN_cellsToLinkedMultiPolygon;
    op.cells = cellSet(maxCells, op.tag);
    // (the rare very large sets get the error variants half of the time: "large AND invalid" must not be left to chance)
    if (op.tag.compare(0, 8, "isolated") == 0 && r.chance(0.5) && op.cells.size() > 2) {
        // a very large set that is also invalid: an index whose base cell is out of range, somewhere after the first cell
        size_t at = 1 + r.below(op.cells.size() - 1);
        op.cells[at] = (op.cells[at] & ~((H3Index)0x7f << 45)) | ((H3Index)(122 + r.below(6)) << 45);
        op.tag += "+invalid-index";
    } else if (r.chance(0.25)) {
        switch (r.below(6)) {
            case 0:
                if (!op.cells.empty()) {
                    int nd = (int)r.range(1, 3);
                    for (int i = 0; i < nd; i++)
                        op.cells.insert(
                            op.cells.begin() + r.below(op.cells.size() + 1),
                            r.pick(op.cells));
                }
                op.tag += "+dup";
                break;
            case 1:
                if (!op.cells.empty()) {
                    H3Index c = r.pick(op.cells), p = 0;
                    int res = (int)((c >> 52) & 0xF);
                    if (res > 0 && REF.cellToParent(c, res - 1, &p) == E_SUCCESS)
                        op.cells.push_back(p);
                    else
                        op.cells.push_back(randCell((res + 1) % 16));
                }
                op.tag += "+mixed-res";
                break;
            case 2:
                if (op.cells.empty()) op.cells.push_back(anyCell());
                {
                    size_t i = r.below(op.cells.size());
                    op.cells[i] = damaged(op.cells[i]);
                }
                op.tag += "+damaged";
                break;
            case 3:
                op.cells.clear();
                op.tag += "+empty";
                break;
            case 4:
                op.cells.resize(op.cells.empty() ? 0 : 1);
                op.tag += "+single";
                break;
            default:
                if (!op.cells.empty())
                    op.cells.insert(op.cells.begin() + r.below(op.cells.size() + 1), 0);
                op.tag += "+null";
                break;
        }
    }
    return op;
}

// ----------------------------------------------------------------- C18 ----
Op Gen::anyOp(int scale, int forcedFn) {
    Op op;
    int fn;
    do {
        fn = (int)r.below(FN_COUNT);
    } while (fn == FN_destroyLinkedMultiPolygon);
    // favour the functions with scratch memory and the big algorithms
    if (forcedFn >= 0 && forcedFn != FN_destroyLinkedMultiPolygon) {
        fn = forcedFn;
    } else if (r.chance(0.35)) {
        static const int heavy[] = {FN_compactCells,
                                    FN_gridDisk,
                                    FN_gridDiskDistances,
                                    FN_areNeighborCells,
                                    FN_polygonToCells,
                                    FN_polygonToCellsExperimental,
                                    FN_maxPolygonToCellsSizeExperimental,
                                    FN_cellsToLinkedMultiPolygon,
                                    FN_uncompactCells,
                                    FN_gridPathCells,
                                    FN_cellToLocalIj,
                                    FN_latLngToCell,
                                    FN_cellToBoundary};
        fn = heavy[r.below(sizeof heavy / sizeof heavy[0])];
    }
    int cellBudget = scale == 0 ? 60 : scale == 1 ? 300 : 1500;
    op.fn = fn;
    auto validEdge = [&]() -> H3Index {
        H3Index c = anyCell();
        H3Index e[6] = {0};
        REF.originToDirectedEdges(c, e);
        for (int t = 0; t < 12; t++) {
            H3Index x = e[r.below(6)];
            if (x) return x;
        }
        return c;
    };
    auto validVertex = [&]() -> H3Index {
        H3Index c = anyCell();
        H3Index v[6] = {0};
        REF.cellToVertexes(c, v);
        for (int t = 0; t < 12; t++) {
            H3Index x = v[r.below(6)];
            if (x) return x;
        }
        return c;
    };
    auto resArg = [&]() -> int64_t {
        if (r.chance(0.08)) return r.chance(0.5) ? -1 : 16 + (int64_t)r.below(3);
        return (int64_t)r.below(16);
    };
    switch (fn) {
        case FN_compactCells: {
            op = compactOp();
            if ((int)op.cells.size() > cellBudget * 4) op.cells.resize(cellBudget * 4);
            break;
        }
        case FN_gridDisk:
            op = diskOp(false);
            break;
        case FN_gridDiskDistances:
            op = diskOp(true);
            break;
        case FN_areNeighborCells:
            op = neighborsOp();
            break;
        case FN_polygonToCells:
        case FN_polygonToCellsExperimental:
        case FN_maxPolygonToCellsSizeExperimental:
        case FN_maxPolygonToCellsSize:
            op = polygonOp(fn, cellBudget);
            break;
        case FN_cellsToLinkedMultiPolygon:
            op = c16Op(cellBudget);
            break;
        case FN_describeH3Error:
            op.ints = {r.chance(0.8) ? (int64_t)r.below(16)
                                     : (int64_t)r.below(1000)};
            break;
        case FN_latLngToCell: {
            LatLng g = randPoint();
            if (r.chance(0.3)) g = centerOf(anyCell());
            bool edgy = r.chance(0.14);
            if (edgy) g = nearIcosaEdge();
            if (r.chance(0.05)) g.lat = r.chance(0.5) ? NAN : (r.chance(0.5) ? INFINITY : -INFINITY);
            if (r.chance(0.03)) g.lng = r.chance(0.5) ? NAN : INFINITY;
            if (r.chance(0.05)) g.lng = r.uniform(-20, 20);
            op.dbls = {g.lat, g.lng};
            op.ints = {resArg()};
            if (edgy && r.chance(0.75)) op.ints[0] = 13 + (int64_t)r.below(3);
            if (edgy) op.tag = "near-icosa-edge";
            break;
        }
        case FN_maxGridDiskSize:
            op.ints = {r.chance(0.9) ? (int64_t)r.below(50)
                                     : r.range(-5, 2000000000LL)};
            break;
        case FN_gridDiskUnsafe:
        case FN_gridRingUnsafe:
            op.cells = {anyCellOrBad()};
            op.ints = {(int64_t)r.below(8)};
            if (r.chance(0.03)) op.ints[0] = -1;
            break;
        case FN_gridDiskDistancesUnsafe:
        case FN_gridDiskDistancesSafe:
            op.cells = {anyCellOrBad()};
            op.ints = {(int64_t)r.below(fn == FN_gridDiskDistancesSafe ? 5 : 8),
                       r.chance(0.5) ? 1 : 0};
            break;
        case FN_gridDisksUnsafe: {
            int n = (int)r.range(0, 6);
            int res = (int)r.below(16);
            for (int i = 0; i < n; i++)
                op.cells.push_back(r.chance(0.2) ? nearPentagon(res, 3)
                                                 : randCell(res));
            op.ints = {(int64_t)r.below(5)};
            if (r.chance(0.04)) op.ints[0] = -1;  // maxGridDiskSize error before anything is written
            break;
        }
        case FN_degsToRads:
        case FN_radsToDegs:
            op.dbls = {r.uniform(-720, 720)};
            break;
        case FN_greatCircleDistanceRads:
        case FN_greatCircleDistanceKm:
        case FN_greatCircleDistanceM: {
            LatLng a = randPoint(), b = randPoint();
            op.dbls = {a.lat, a.lng, b.lat, b.lng};
            break;
        }
        case FN_getHexagonAreaAvgKm2:
        case FN_getHexagonAreaAvgM2:
        case FN_getHexagonEdgeLengthAvgKm:
        case FN_getHexagonEdgeLengthAvgM:
        case FN_getNumCells:
        case FN_getPentagons:
            op.ints = {resArg()};
            break;
        case FN_edgeLengthRads:
        case FN_edgeLengthKm:
        case FN_edgeLengthM:
        case FN_isValidDirectedEdge:
        case FN_getDirectedEdgeOrigin:
        case FN_getDirectedEdgeDestination:
        case FN_directedEdgeToCells:
        case FN_directedEdgeToBoundary: {
            H3Index e = validEdge();
            if (r.chance(0.15)) e = damaged(e);
            op.cells = {e};
            break;
        }
        case FN_vertexToLatLng:
        case FN_isValidVertex: {
            H3Index v = validVertex();
            if (r.chance(0.15)) v = damaged(v);
            op.cells = {v};
            break;
        }
        case FN_res0CellCount:
        case FN_getRes0Cells:
        case FN_pentagonCount:
            break;
        case FN_stringToH3: {
            char b[40];
            H3Index c = anyCellOrBad();
            snprintf(b, sizeof b, "%llx", (unsigned long long)c);
            op.str = b;
            if (r.chance(0.1)) op.str = "zzz";
            if (r.chance(0.05)) op.str = "";
            if (r.chance(0.05)) op.str += "ffffffffffffffffffff";
            if (r.chance(0.08)) {
                // boundary values of the 64-bit range in the spellings a hex parser accepts
                static const char *B[] = {"ffffffffffffffff", "FFFFFFFFFFFFFFFF", "-1", "0xffffffffffffffff", "0", "8000000000000000",
                                          "7fffffffffffffff", "10000000000000000", "-0", "+8", "fffffffffffffffe"};
                op.str = B[r.below(sizeof B / sizeof B[0])];
            }
            if (r.chance(0.12)) op.str += r.chance(0.5) ? " 7" : " trailing words";  // text after the number
            if (r.chance(0.04)) op.str = "  " + op.str;
            break;
        }
        case FN_h3ToString:
            op.cells = {anyCellOrBad()};
            op.ints = {r.chance(0.8) ? 17 : (int64_t)r.below(20)};
            break;
        case FN_cellToParent:
        case FN_cellToCenterChild:
        case FN_cellToChildrenSize:
        case FN_cellToChildPos:
            op.cells = {anyCellOrBad()};
            op.ints = {resArg()};
            break;
        case FN_cellToChildren: {
            H3Index c = anyCell();
            int res = (int)((c >> 52) & 0xF);
            int d = (int)r.range(0, scale == 0 ? 2 : 3);
            op.cells = {c};
            op.ints = {std::min(15, res + d)};
            break;
        }
        case FN_childPosToCell: {
            H3Index p = anyCell();
            int res = (int)((p >> 52) & 0xF);
            int cr = std::min(15, res + (int)r.below(4));
            int64_t n = 1;
            REF.cellToChildrenSize(p, cr, &n);
            op.cells = {p};
            op.ints = {r.chance(0.9) ? (int64_t)r.below((uint64_t)std::max<int64_t>(n, 1))
                                     : n + (int64_t)r.below(3),
                       cr};
            if (r.chance(0.06)) op.ints[1] = r.chance(0.5) ? -1 : 16 + (int64_t)r.below(3);  // E_RES_DOMAIN
            if (r.chance(0.06) && res > 0) op.ints[1] = (int64_t)r.below((uint64_t)res);      // E_RES_MISMATCH
            if (r.chance(0.03)) op.ints[0] = -1 - (int64_t)r.below(5);                        // E_DOMAIN
            if (r.chance(0.05)) op.cells[0] = damaged(p);
            break;
        }
        case FN_uncompactCellsSize:
        case FN_uncompactCells: {
            int n = (int)r.range(0, 5);
            int res = (int)r.below(14);
            for (int i = 0; i < n; i++) op.cells.push_back(randCell(res));
            if (r.chance(0.3) && n) op.cells[0] = pentagon(res);
            int tr = std::min(15, res + (int)r.below(3));
            if (r.chance(0.05)) tr = res - 1;
            op.ints = {tr};
            if (fn == FN_uncompactCells) {
                int64_t sz = 0;
                if (REF.uncompactCellsSize(op.cells.data(), n, tr, &sz) != E_SUCCESS)
                    sz = 4;
                if (r.chance(0.15) && sz > 0) sz = (int64_t)r.below((uint64_t)sz);
                op.ints.push_back(sz);
            }
            break;
        }
        case FN_cellsToDirectedEdge:
        case FN_gridDistance:
        case FN_gridPathCellsSize:
        case FN_gridPathCells:
        case FN_cellToLocalIj: {
            H3Index a = anyCellOrBad();
            H3Index b;
            double u = r.unit();
            if (u < 0.4)
                b = neighborOf(a);
            else if (u < 0.8) {
                b = a;
                int steps = (int)r.range(1, scale == 0 ? 6 : 15);
                for (int i = 0; i < steps; i++) b = neighborOf(b);
            } else
                b = anyCellOrBad();
            op.cells = {a, b};
            if (fn == FN_cellToLocalIj) op.ints = {r.chance(0.9) ? 0 : (int64_t)r.below(4)};
            break;
        }
        case FN_localIjToCell:
            op.cells = {anyCellOrBad()};
            op.ints = {r.range(-12, 12), r.range(-12, 12),
                       r.chance(0.9) ? 0 : (int64_t)r.below(4)};
            if (r.chance(0.3)) op.ints[0] = r.range(-400, 400), op.ints[1] = r.range(-400, 400);
            if (r.chance(0.3)) op.cells[0] = r.chance(0.5) ? pentagon((int)r.below(16)) : nearPentagon((int)r.below(16), 3);
            if (r.chance(0.05)) op.ints[0] = r.range(-2000000000LL, 2000000000LL);
            if (r.chance(0.04)) {
                // both coordinates near the int32 limits: the overflow guards of ijToIjk / ijkToCube
                static const int64_t X[] = {2147483647LL, -2147483647LL - 1, 2147483646LL, -2147483647LL, 1431655765LL, -1431655765LL, 715827882LL};
                op.ints[0] = X[r.below(7)];
                op.ints[1] = X[r.below(7)];
            }
            break;
        case FN_cellToVertex:
            op.cells = {anyCellOrBad()};
            op.ints = {r.range(-1, 7)};
            break;
        default:  // single-cell functions
            op.cells = {anyCellOrBad()};
            break;
    }
    op.fn = fn;
    return op;
}

// ------------------------------------------------------------- catalogue ----
namespace {
const int64_t CAT_NBR = 16 * 12 * 4, CAT_DISK = 16 * 12 * 2 * 2, CAT_COMPACT = 15 * 6 + 8,
              CAT_POLY = 10 * 12 * 7;
H3Index atDistance(H3Index origin, int d) {
    std::vector<H3Index> disk = refDisk(origin, d);
    for (auto c : disk) {
        int64_t dist = 0;
        if (REF.gridDistance(origin, c, &dist) == E_SUCCESS && dist == d) return c;
    }
    // gridDistance can fail across pentagons: take any cell that is not in the (d-1)-disk
    std::vector<H3Index> inner = refDisk(origin, d - 1);
    for (auto c : disk)
        if (std::find(inner.begin(), inner.end(), c) == inner.end()) return c;
    return origin;
}
void ngonAround(LatLng c, double R, int n, double rot, std::vector<LatLng> &out) {
    double cosLat = std::max(0.05, cos(c.lat));
    for (int i = 0; i < n; i++) {
        LatLng g;
        g.lat = c.lat + R * sin(rot + 2 * PI * i / n);
        if (g.lat > PI / 2) g.lat = PI / 2;
        if (g.lat < -PI / 2) g.lat = -PI / 2;
        g.lng = wrapLng(c.lng + R * cos(rot + 2 * PI * i / n) / cosLat);
        out.push_back(g);
    }
}
}  // namespace

int64_t Gen::catalogueC17Size() { return CAT_NBR + CAT_DISK + CAT_COMPACT + CAT_POLY; }

bool Gen::catalogueC17(int64_t idx, Op &op) {
    op = Op();
    if (idx < 0) return false;
    if (idx < CAT_NBR) {
        int v = (int)(idx % 4), p = (int)((idx / 4) % 12), res = (int)(idx / 48);
        H3Index pent = PENT[res][p];
        H3Index nbr = atDistance(pent, 1);
        op.fn = FN_areNeighborCells;
        switch (v) {
            case 0:
                op.cells = {pent, nbr};
                break;
            case 1:
                op.cells = {nbr, pent};
                break;
            case 2:
                op.cells = {pent, atDistance(pent, 2)};
                break;
            default:
                op.cells = {nbr, atDistance(nbr, 1)};
        }
        op.tag = "catalogue:pentagon-pairs";
        return true;
    }
    idx -= CAT_NBR;
    if (idx < CAT_DISK) {
        int f = (int)(idx % 2), kk = (int)((idx / 2) % 2), p = (int)((idx / 4) % 12), res = (int)(idx / 48);
        H3Index pent = PENT[res][p];
        op.fn = f ? FN_gridDiskDistances : FN_gridDisk;
        if (kk == 0) {
            op.cells = {pent};
            op.ints = {1};
        } else {
            op.cells = {atDistance(pent, 2)};
            op.ints = {3};
        }
        if (f) op.ints.push_back(0);
        op.tag = "catalogue:pentagon-disks";
        return true;
    }
    idx -= CAT_DISK;
    if (idx >= 15 * 6 && idx < CAT_COMPACT) {
        // whole base cells (compaction reaches resolution 0) and zero-padded inputs
        int v = (int)(idx - 15 * 6);
        op.fn = FN_compactCells;
        int R = (v & 1) ? 2 : 1;
        int n = v < 2 ? 6 : v < 4 ? 12 : v < 6 ? 40 : 7;
        for (int i = 0; i < n; i++) {
            H3Index bc = v < 4 && v >= 2 ? PENT[0][i % 12] : RES0[(i * 5 + v) % 122];
            std::vector<H3Index> ch = refChildren(bc, R);
            op.cells.insert(op.cells.end(), ch.begin(), ch.end());
        }
        if (v >= 6) {  // leading and embedded zeros
            op.cells.insert(op.cells.begin(), 0);
            op.cells.insert(op.cells.begin() + op.cells.size() / 2, 0);
            op.cells.push_back(0);
        }
        op.tag = v >= 6 ? "catalogue:zero-padded" : "catalogue:whole-basecells";
        return true;
    }
    if (idx < CAT_COMPACT) {
        int v = (int)(idx % 6), R = 1 + (int)(idx / 6);
        int d = std::min(R, 3);
        H3Index pparent = PENT[R - d][R % 12];
        H3Index hparent = atDistance(PENT[R - d][(R + 5) % 12], 1);
        op.fn = FN_compactCells;
        std::vector<H3Index> pc = refChildren(pparent, R), hc = refChildren(hparent, R);
        switch (v) {
            case 0:
                op.cells = pc;
                break;
            case 1:
                op.cells = hc;
                break;
            case 2:
                op.cells = pc;
                op.cells.push_back(pc[pc.size() / 2]);
                break;
            case 3:
                op.cells = hc;
                op.cells[hc.size() / 3] |= (3ULL << 56);
                break;
            case 4:
                op.cells = hc;
                op.cells[hc.size() / 2] = PENT[(R + 1) % 16][0];
                break;
            default: {
                int d2 = std::min(R, 2);
                op.cells = refChildren(PENT[R - d2][3], R);
                std::vector<H3Index> o = refChildren(atDistance(PENT[R - d2][7], 1), R);
                op.cells.insert(op.cells.end(), o.begin(), o.end());
            }
        }
        op.tag = "catalogue:compaction";
        return true;
    }
    idx -= CAT_COMPACT;
    if (idx < CAT_POLY) {
        int v = (int)(idx % 7), p = (int)((idx / 7) % 12), res = (int)(idx / 84);
        LatLng c = {0, 0};
        REF.cellToLatLng(PENT[res][p], &c);
        double R = 1.6 * edgeLenRads(res);
        if (R > 0.6) R = 0.6;
        std::vector<LatLng> outer;
        ngonAround(c, R, 6, 0.3 + 0.1 * p, outer);
        op.loops.push_back(outer);
        if (res & 1) {
            std::vector<LatLng> hole;
            ngonAround(c, R * 0.2, 4, 0.1, hole);
            op.loops.push_back(hole);
        }
        op.tag = "catalogue:pentagon-polygons";
        if (v == 0) {
            op.fn = FN_polygonToCells;
            op.ints = {res, 0};
        } else if (v == 6) {
            op.fn = FN_maxPolygonToCellsSizeExperimental;
            op.ints = {res, 0};
        } else {
            op.fn = FN_polygonToCellsExperimental;
            uint32_t flags = v <= 4 ? (uint32_t)(v - 1) : 0;
            op.ints = {res, (int64_t)flags};
            Op sz = op;
            sz.fn = FN_maxPolygonToCellsSizeExperimental;
            Result rs = execOp(REF, sz, ExecOpts());
            int64_t cap = 16;
            if (rs.status == CALL_RETURNED && rs.rc == E_SUCCESS && rs.out.size() >= 8)
                memcpy(&cap, rs.out.data(), 8);
            if (v == 5) cap = cap / 3;
            op.ints.push_back(cap);
        }
        return true;
    }
    return false;
}

namespace {
const int64_t C16_CAT_PENT = 16 * 12 * 3, C16_CAT_RINGS = 16 * 3, C16_CAT_POLAR = 6 * 3 * 4, C16_CAT_GLOBE = 8,
              C16_CAT_PENTSET = 16 * 2, C16_CAT_BADSMALL = 4 * 4;
}
int64_t Gen::catalogueC16Size() {
    return C16_CAT_PENT + C16_CAT_RINGS + C16_CAT_POLAR + C16_CAT_GLOBE + C16_CAT_PENTSET + C16_CAT_BADSMALL;
}
bool Gen::catalogueC16(int64_t idx, Op &op) {
    op = Op();
    if (idx < 0 || idx >= catalogueC16Size()) return false;
    if (idx >= C16_CAT_PENT + C16_CAT_RINGS + C16_CAT_POLAR + C16_CAT_GLOBE + C16_CAT_PENTSET) {
        // the smallest error inputs: ONE index that is not a cell, alone (a set of exactly one element takes whatever
        // special path a tree has for it) and before / after one or two valid cells
        int j = (int)(idx - C16_CAT_PENT - C16_CAT_RINGS - C16_CAT_POLAR - C16_CAT_GLOBE - C16_CAT_PENTSET);
        int which = j / 4, shape = j % 4;
        int res = which == 3 ? 9 : 5;
        H3Index good = atDistance(PENT[res][3], 4);
        std::vector<H3Index> d = refDisk(good, 1);
        H3Index good2 = good;
        for (auto x : d)
            if (x != good && x != 0) {
                good2 = x;
                break;
            }
        H3Index bad = which == 0 ? (H3Index)0x0fffffffffffffffULL
                                 : (good & ~((H3Index)0x7f << 45)) | ((H3Index)(which == 1 ? 122 : 127) << 45);
        op.fn = FN_cellsToLinkedMultiPolygon;
        if (shape == 0) op.cells = {bad};
        if (shape == 1) op.cells = {bad, good};
        if (shape == 2) op.cells = {good, bad};
        if (shape == 3) op.cells = {good, good2, bad};
        op.tag = "catalogue:not-a-cell-in-a-set-of-" + std::to_string(op.cells.size()) + (shape == 1 ? "-first" : "");
        return true;
    }
    if (idx >= C16_CAT_PENT + C16_CAT_RINGS + C16_CAT_POLAR + C16_CAT_GLOBE) {
        // the twelve pentagons of a resolution as one sparse set (12 components, 5 or 10 vertices each), alone and
        // together with one neighbour each
        int j = (int)(idx - C16_CAT_PENT - C16_CAT_RINGS - C16_CAT_POLAR - C16_CAT_GLOBE), pres = j / 2;
        op.fn = FN_cellsToLinkedMultiPolygon;
        for (int p = 0; p < 12; p++) {
            op.cells.push_back(PENT[pres][p]);
            if (j % 2) {
                std::vector<H3Index> d = refDisk(PENT[pres][p], 1);
                for (auto x : d)
                    if (x != PENT[pres][p]) {
                        op.cells.push_back(x);
                        break;
                    }
            }
        }
        op.tag = j % 2 ? "catalogue:all-pentagons+neighbour" : "catalogue:all-pentagons";
        return true;
    }
    if (idx >= C16_CAT_PENT + C16_CAT_RINGS + C16_CAT_POLAR) {
        // every cell of resolution 0 / 1 except 1..4 single-cell gaps: only clockwise loops remain
        int j = (int)(idx - C16_CAT_PENT - C16_CAT_RINGS - C16_CAT_POLAR), gres = j / 4, gaps = 1 + j % 4;
        op.fn = FN_cellsToLinkedMultiPolygon;
        std::vector<H3Index> all;
        for (int b = 0; b < 122; b++) {
            if (gres == 0)
                all.push_back(RES0[b]);
            else
                for (auto x : refChildren(RES0[b], gres)) all.push_back(x);
        }
        std::set<H3Index> drop;
        for (int gI = 0; gI < gaps; gI++) drop.insert(all[(size_t)(17 + 211 * gI) % all.size()]);
        for (auto x : all)
            if (!drop.count(x)) op.cells.push_back(x);
        op.tag = "catalogue:globe-res" + std::to_string(gres) + "-minus-" + std::to_string(gaps) + "-gaps";
        return true;
    }
    if (idx >= C16_CAT_PENT + C16_CAT_RINGS) {
        // caps around the north pole, the south pole and both, k = 0..3, resolutions 0..5
        int j = (int)(idx - C16_CAT_PENT - C16_CAT_RINGS), k = j % 4, which = (j / 4) % 3, pres = j / 12;
        op.fn = FN_cellsToLinkedMultiPolygon;
        std::set<H3Index> acc;
        for (int pole = 0; pole < 2; pole++) {
            if (which != 2 && which != pole) continue;
            LatLng g;
            g.lat = pole == 0 ? PI / 2 : -PI / 2;
            g.lng = 0;
            H3Index c = 0;
            REF.latLngToCell(&g, pres, &c);
            for (auto x : refDisk(c, k)) acc.insert(x);
        }
        op.cells.assign(acc.begin(), acc.end());
        op.tag = std::string("catalogue:polar-") + (which == 0 ? "north" : which == 1 ? "south" : "both");
        return true;
    }
    if (idx >= 16 * 12 * 3) {
        // concentric hollow rings (2, 3, 4 levels of nesting) at every resolution
        int j = (int)(idx - 16 * 12 * 3), rings = 2 + j % 3, res = j / 3;
        H3Index center = atDistance(PENT[res][(res * 7) % 12], res == 0 ? 1 : 4);
        op.fn = FN_cellsToLinkedMultiPolygon;
        std::set<H3Index> acc;
        for (int i = 0, radius = 1; i < rings; i++, radius += 2) {
            std::vector<H3Index> outer = refDisk(center, radius), inner = refDisk(center, radius - 1);
            std::set<H3Index> in(inner.begin(), inner.end());
            for (auto c : outer)
                if (!in.count(c)) acc.insert(c);
        }
        op.cells.assign(acc.begin(), acc.end());
        op.tag = "catalogue:concentric-rings-" + std::to_string(rings);
        return true;
    }
    int v = (int)(idx % 3), p = (int)((idx / 3) % 12), res = (int)(idx / 36);
    H3Index pent = PENT[res][p];
    op.fn = FN_cellsToLinkedMultiPolygon;
    std::vector<H3Index> disk = refDisk(pent, v == 2 ? 2 : 1);
    for (auto c : disk) {
        if (v >= 1 && c == pent) continue;  // ring around the pentagon: one hole
        op.cells.push_back(c);
    }
    op.tag = v == 0 ? "catalogue:pentagon-disk" : "catalogue:pentagon-ring";
    return true;
}
