// heap.cc — simulated heap (DESIGN.md §2.3)
#include "heap.h"

#include <sys/mman.h>

#include <unordered_map>

const char *FAULT_NAMES[F_KINDS] = {"none",          "F1_fail_nth",
                                    "F2_fail_from_nth", "F3_bernoulli",
                                    "F4_fail_by_size",  "F5_fail_nth_of_kind",
                                    "F6_capacity",      "natural"};

// ------------------------------------------------------------ knobs/json --
JP HeapKnobs::toJson() const {
    JP j = JVal::obj();
    j->set("fill", fill).set("poison", poison).set("placement", placement);
    j->set("redzone", redzone).set("capacity", capacity);
    if (smallStack) j->set("small_stack", smallStack);
    return j;
}
HeapKnobs HeapKnobs::fromJson(const JVal &j) {
    HeapKnobs k;
    k.fill = (int)j.geti("fill", 0);
    k.poison = (int)j.geti("poison", 1);
    k.placement = (int)j.geti("placement", 0);
    k.redzone = (int)j.geti("redzone", 64);
    k.capacity = j.geti("capacity", 0);
    k.smallStack = (int)j.geti("small_stack", 0);
    return k;
}
HeapKnobs HeapKnobs::benign() {
    HeapKnobs k;
    k.fill = 1;
    k.poison = 1;
    k.placement = 0;
    k.redzone = 64;
    k.capacity = 0;
    return k;
}
HeapKnobs HeapKnobs::draw(Rng &r) {
    HeapKnobs k;
    k.fill = (int)r.below(3);
    k.poison = r.chance(0.85) ? 1 : 0;
    k.placement = (int)r.below(3);
    static const int rz[] = {32, 48, 64, 128, 256};
    k.redzone = rz[r.below(5)];
    k.capacity = 0;
    return k;
}
JP FaultPlan::toJson() const {
    JP j = JVal::obj();
    j->set("kind", FAULT_NAMES[kind]);
    switch (kind) {
        case F1_NTH:
        case F2_FROM_NTH:
            j->set("n", n);
            break;
        case F3_BERNOULLI:
            j->setd("p", p);
            j->set("seed", hex64(seed));
            break;
        case F4_BY_SIZE:
            j->set("size", size).set("ge", ge);
            break;
        case F5_NTH_OF_KIND:
            j->set("n", n).set("which", which ? "calloc" : "malloc");
            break;
        case F6_CAPACITY:
            j->set("capacity", capacity);
            break;
        default:
            break;
    }
    return j;
}
FaultPlan FaultPlan::fromJson(const JVal &j) {
    FaultPlan f;
    std::string k = j.gets("kind", "none");
    for (int i = 0; i < F_KINDS; i++)
        if (k == FAULT_NAMES[i]) f.kind = i;
    f.n = j.geti("n", 0);
    f.p = j.getd("p", 0);
    f.size = j.geti("size", 0);
    f.ge = (int)j.geti("ge", 1);
    f.which = j.gets("which", "malloc") == "calloc" ? 1 : 0;
    f.seed = strtoull(j.gets("seed", "0").c_str(), nullptr, 16);
    f.capacity = j.geti("capacity", 0);
    return f;
}
std::string FaultPlan::brief() const {
    char b[96];
    switch (kind) {
        case F_NONE:
            return "none";
        case F1_NTH:
            snprintf(b, sizeof b, "F1(n=%lld)", (long long)n);
            break;
        case F2_FROM_NTH:
            snprintf(b, sizeof b, "F2(n>=%lld)", (long long)n);
            break;
        case F3_BERNOULLI:
            snprintf(b, sizeof b, "F3(p=%.2f)", p);
            break;
        case F4_BY_SIZE:
            snprintf(b, sizeof b, "F4(size%s%lld)", ge ? ">=" : "<=",
                     (long long)size);
            break;
        case F5_NTH_OF_KIND:
            snprintf(b, sizeof b, "F5(%s#%lld)", which ? "calloc" : "malloc",
                     (long long)n);
            break;
        case F6_CAPACITY:
            snprintf(b, sizeof b, "F6(cap=%lld)", (long long)capacity);
            break;
        default:
            return "?";
    }
    return b;
}

// ------------------------------------------------------------------ heap --
namespace {
const size_t ARENA_SIZE = (size_t)3 << 30;  // virtual, MAP_NORESERVE
const uint8_t RZ_BYTE = 0xA5;
const uint8_t POISON_BYTE = 0xDD;

struct Block {
    uint8_t *ptr;    // payload
    size_t size;     // requested payload size
    size_t cap;      // payload capacity of the slot (>= size)
    int rz;          // red zone bytes on each side
    int task;
    uint64_t opId;
    uintptr_t site;
    uint64_t serial;
    bool live;
    bool poisoned;
    bool bypass = false;  // obtained through a plain libc allocator call of the library (not the H3_MEMORY seam)
};

uint8_t *g_arena = nullptr;
size_t g_bump = 0, g_highWater = 0;
HeapKnobs g_knobs;
std::vector<Block> g_blocks;                      // all blocks since reset
std::unordered_map<uint8_t *, size_t> g_byPtr;    // payload -> index (latest)
std::vector<size_t> g_freeList;                   // reusable slots
int64_t g_liveBytes = 0;
uint64_t g_serial = 0;
int64_t g_totalAllocs = 0;
thread_local OpHeapCtx *tl_ctx = nullptr;
OpHeapCtx g_unbound;  // calls made while no op is bound (should not happen)

inline size_t off(const uint8_t *p) { return (size_t)(p - g_arena); }

void violate(OpHeapCtx *c, const char *kind, const std::string &detail,
             uintptr_t site) {
    HeapViolation v;
    v.kind = kind;
    v.detail = detail;
    v.event = (int64_t)c->log.n;
    v.site = site;
    if (c->violations.size() < 16) c->violations.push_back(v);
    c->log.add(0xbadbadULL ^ hashBytes(kind, strlen(kind)));
}

bool rzIntact(const Block &b) {
#ifdef SIM_DELEGATE_MALLOC
    (void)b;
    return true;
#else
    const uint8_t *lo = b.ptr - b.rz;
    for (int i = 0; i < b.rz; i++)
        if (lo[i] != RZ_BYTE) return false;
    const uint8_t *hi = b.ptr + b.size;
    // the slack between size and cap is red zone too
    size_t n = (b.cap - b.size) + b.rz;
    for (size_t i = 0; i < n; i++)
        if (hi[i] != RZ_BYTE) return false;
    return true;
#endif
}
bool poisonIntact(const Block &b) {
#ifdef SIM_DELEGATE_MALLOC
    (void)b;
    return true;
#else
    for (size_t i = 0; i < b.cap; i++)
        if (b.ptr[i] != POISON_BYTE) return false;
    return true;
#endif
}

void fillPayload(uint8_t *p, size_t size, int mode, uint64_t seed) {
    if (mode == 1)
        memset(p, 0, size);
    else if (mode == 2)
        memset(p, 0xFF, size);
    else {
        uint64_t s = seed;
        size_t i = 0;
        for (; i + 8 <= size; i += 8) {
            uint64_t v = splitmix64(s);
            memcpy(p + i, &v, 8);
        }
        uint64_t v = splitmix64(s);
        for (; i < size; i++) {
            p[i] = (uint8_t)v;
            v >>= 8;
        }
    }
}

// set while the library calls the libc allocator directly instead of H3_MEMORY(...)
thread_local bool tl_bypass = false;

// decide whether this request is failed by the plan
int decideFault(OpHeapCtx *c, int kind, size_t size) {
    const FaultPlan &p = c->plan;
    switch (p.kind) {
        case F1_NTH:
            if (c->allocCount == p.n) return F1_NTH;
            break;
        case F2_FROM_NTH:
            if (c->allocCount >= p.n) return F2_FROM_NTH;
            break;
        case F3_BERNOULLI:
            if (c->faultRng.chance(p.p)) return F3_BERNOULLI;
            break;
        case F4_BY_SIZE:
            if (p.ge ? ((int64_t)size >= p.size) : ((int64_t)size <= p.size))
                return F4_BY_SIZE;
            break;
        case F5_NTH_OF_KIND:
            if (p.which == 0 && kind == 0 && c->mallocCount == p.n)
                return F5_NTH_OF_KIND;
            if (p.which == 1 && kind == 1 && c->callocCount == p.n)
                return F5_NTH_OF_KIND;
            break;
        case F6_CAPACITY:
            if (c->liveBytesOp + (int64_t)size > p.capacity) return F6_CAPACITY;
            break;
        default:
            break;
    }
    if (g_knobs.capacity > 0 && g_liveBytes + (int64_t)size > g_knobs.capacity)
        return F6_CAPACITY;
    return F_NONE;
}

void *doAlloc(int kind, size_t size, bool zero, uintptr_t site) {
    if (heapSchedHook) heapSchedHook();
    OpHeapCtx *c = tl_ctx ? tl_ctx : &g_unbound;
    const bool byp = tl_bypass;
    if (byp) {
        // a request that bypasses the seam is invisible to a custom allocator: it is not part of the
        // request numbering, cannot be failed by the plan, but the block is tracked like any other
        c->bypassAllocs++;
    } else {
        c->allocCount++;
        if (kind == 0) c->mallocCount++;
        if (kind == 1) c->callocCount++;
    }
    g_totalAllocs++;
    size_t want = size ? size : 1;
    int f = byp ? (int)F_NONE : decideFault(c, kind, size);
    AllocRec rec;
    rec.kind = (uint8_t)kind;
    rec.size = size;
    rec.site = site;
    rec.failedBy = (uint8_t)f;
    Block nb;
    nb.ptr = nullptr;
    if (!f) {
#ifdef SIM_DELEGATE_MALLOC
        nb.ptr = (uint8_t *)malloc(want);
        nb.cap = want;
        nb.rz = 0;
        if (!nb.ptr) f = F_NATURAL;
#else
        int rz = g_knobs.redzone;
        // try to reuse a freed slot
        ssize_t pickIdx = -1;
        if (g_knobs.placement == 1) {
            size_t scanned = 0;
            for (size_t i = g_freeList.size(); i > 0 && scanned < 64;
                 i--, scanned++) {
                Block &b = g_blocks[g_freeList[i - 1]];
                if (b.cap >= want && b.cap <= want * 4 + 64) {
                    pickIdx = (ssize_t)(i - 1);
                    break;
                }
            }
        } else if (g_knobs.placement == 2) {
            size_t best = (size_t)-1;
            for (size_t i = 0; i < g_freeList.size() && i < 4096; i++) {
                Block &b = g_blocks[g_freeList[i]];
                if (b.cap >= want && b.cap <= want * 4 + 64 &&
                    off(b.ptr) < best) {
                    best = off(b.ptr);
                    pickIdx = (ssize_t)i;
                }
            }
        }
        if (pickIdx >= 0) {
            size_t bi = g_freeList[(size_t)pickIdx];
            g_freeList.erase(g_freeList.begin() + pickIdx);
            Block &old = g_blocks[bi];
            if (old.poisoned && !poisonIntact(old))
                violate(c, "use-after-free",
                        "freed block was written before reuse (size " +
                            std::to_string(old.size) + ")",
                        old.site);
            nb.ptr = old.ptr;
            nb.cap = old.cap;
            nb.rz = old.rz;
            old.poisoned = false;  // slot handed on
            old.cap = 0;
            // slack between size and cap becomes red zone
            memset(nb.ptr + want, RZ_BYTE, nb.cap - want);
        } else {
            size_t start = (g_bump + rz + 15) & ~(size_t)15;
            size_t cap = (want + 15) & ~(size_t)15;
            if (start + cap + rz > ARENA_SIZE) {
                f = F_NATURAL;
            } else {
                nb.ptr = g_arena + start;
                nb.cap = cap;
                nb.rz = rz;
                g_bump = start + cap + rz;
                if (g_bump > g_highWater) g_highWater = g_bump;
                memset(nb.ptr - rz, RZ_BYTE, rz);
                memset(nb.ptr + want, RZ_BYTE, cap - want + rz);
            }
        }
#endif
    }
    if (f) {
        rec.failedBy = (uint8_t)f;
        c->failed++;
        c->fired[f]++;
        c->allocs.push_back(rec);
        c->log.add(0xA110C000ULL | (uint64_t)kind);
        c->log.add(size);
        c->log.add(0xFA11ULL + (uint64_t)f);
        return nullptr;
    }
    nb.size = want;
    nb.task = c->task;
    nb.opId = c->opId;
    nb.site = site;
    nb.serial = ++g_serial;
    nb.live = true;
    nb.poisoned = false;
    nb.bypass = byp;
    if (zero)
        memset(nb.ptr, 0, want);
    else
        fillPayload(nb.ptr, want, g_knobs.fill,
                    mix2(c->fillSeed, (uint64_t)c->allocCount));
    g_blocks.push_back(nb);
    g_byPtr[nb.ptr] = g_blocks.size() - 1;
    g_liveBytes += (int64_t)want;
    c->liveBytesOp += (int64_t)want;
    if (!byp) c->allocs.push_back(rec);
    c->log.add((byp ? 0xB1A55000ULL : 0xA110C000ULL) | (uint64_t)kind);
    c->log.add(size);
#ifdef SIM_DELEGATE_MALLOC
    c->log.add(nb.serial);
#else
    c->log.add(off(nb.ptr));
#endif
    return nb.ptr;
}

void doFree(void *vp, uintptr_t site) {
    if (heapSchedHook) heapSchedHook();
    OpHeapCtx *c = tl_ctx ? tl_ctx : &g_unbound;
    c->frees++;
    c->log.add(0xF4EEULL);
    if (!vp) {
        c->log.add(0);
        return;
    }
    uint8_t *p = (uint8_t *)vp;
    auto it = g_byPtr.find(p);
    if (it == g_byPtr.end()) {
        violate(c, "bad-free",
                "free() of a pointer that is not the start of any block", site);
        return;
    }
    Block &b = g_blocks[it->second];
    if (b.live && b.bypass != tl_bypass)
        violate(c, "bad-free",
                b.bypass ? "block obtained with the plain libc allocator released through H3_MEMORY(free): a custom "
                           "allocator is handed a pointer it never returned"
                         : "block obtained through H3_MEMORY(...) released with plain free(): bypasses the custom "
                           "allocator",
                site);
    if (!b.live) {
        violate(c, "double-free",
                "free() of a block already freed (size " +
                    std::to_string(b.size) + ")",
                site);
        return;
    }
    if (b.task != c->task)
        violate(c, "foreign-free",
                "block allocated by task " + std::to_string(b.task) +
                    " freed by task " + std::to_string(c->task),
                site);
    else if (b.opId != c->opId)
        violate(c, "foreign-free",
                "block allocated by another operation of the same task freed",
                site);
    if (!rzIntact(b))
        violate(c, "redzone",
                "red zone around a block of size " + std::to_string(b.size) +
                    " damaged (seen at free)",
                b.site);
#ifdef SIM_DELEGATE_MALLOC
    c->log.add(b.serial);
#else
    c->log.add(off(b.ptr));
#endif
    b.live = false;
    g_liveBytes -= (int64_t)b.size;
    if (b.opId == c->opId) c->liveBytesOp -= (int64_t)b.size;
#ifdef SIM_DELEGATE_MALLOC
    free(b.ptr);
    g_byPtr.erase(it);
#else
    if (g_knobs.poison) {
        memset(b.ptr, POISON_BYTE, b.cap);
        b.poisoned = true;
    }
    if (g_knobs.placement != 0) g_freeList.push_back(it->second);
#endif
}
}  // namespace

void (*heapSchedHook)(void) = nullptr;

void heapInit() {
    if (g_arena) return;
#ifndef SIM_DELEGATE_MALLOC
    void *m = mmap(nullptr, ARENA_SIZE, PROT_READ | PROT_WRITE,
                   MAP_PRIVATE | MAP_ANONYMOUS | MAP_NORESERVE, -1, 0);
    if (m == MAP_FAILED) {
        perror("mmap arena");
        exit(3);
    }
    g_arena = (uint8_t *)m;
#else
    g_arena = (uint8_t *)1;
#endif
    g_knobs = HeapKnobs::benign();
}

void heapReset(const HeapKnobs &k) {
#ifdef SIM_DELEGATE_MALLOC
    for (auto &b : g_blocks)
        if (b.live) free(b.ptr);
#else
    if (g_highWater > ((size_t)64 << 20)) {
        madvise(g_arena, g_highWater, MADV_DONTNEED);
        g_highWater = 0;
    }
#endif
    g_blocks.clear();
    g_byPtr.clear();
    g_freeList.clear();
    g_bump = 0;
    g_liveBytes = 0;
    g_serial = 0;
    g_knobs = k;
}
const HeapKnobs &heapKnobs() { return g_knobs; }
void heapBind(OpHeapCtx *ctx) { tl_ctx = ctx; }
OpHeapCtx *heapBound() { return tl_ctx; }
int64_t heapTotalAllocs() { return g_totalAllocs; }

void heapAudit(OpHeapCtx *c, bool expectEmpty) {
    int64_t leaked = 0, leakedBytes = 0;
    uintptr_t firstSite = 0;
    for (auto &b : g_blocks) {
        if (b.live && b.opId == c->opId && b.task == c->task) {
            if (!rzIntact(b))
                violate(c, "redzone",
                        "red zone around a live block of size " +
                            std::to_string(b.size) + " damaged",
                        b.site);
            if (expectEmpty) {
                if (!leaked) firstSite = b.site;
                leaked++;
                leakedBytes += (int64_t)b.size;
            }
        } else if (!b.live && b.poisoned && b.cap && b.opId == c->opId &&
                   b.task == c->task) {
            if (!poisonIntact(b))
                violate(c, "use-after-free",
                        "freed block of size " + std::to_string(b.size) +
                            " was written after free",
                        b.site);
        }
    }
    if (leaked)
        violate(c, "leak",
                std::to_string(leaked) + " block(s), " +
                    std::to_string(leakedBytes) +
                    " byte(s) still allocated when the call returned",
                firstSite);
}

void heapAbandonOp(OpHeapCtx *c) {
    for (auto &b : g_blocks)
        if (b.live && b.opId == c->opId && b.task == c->task) {
            b.live = false;
            g_liveBytes -= (int64_t)b.size;
#ifdef SIM_DELEGATE_MALLOC
            g_byPtr.erase(b.ptr);
            free(b.ptr);
#endif
        }
}
int64_t heapLiveBlocksOfTask(int task) {
    int64_t n = 0;
    for (auto &b : g_blocks)
        if (b.live && b.task == task) n++;
    return n;
}
int64_t heapLiveBlocksOfOp(uint64_t opId) {
    int64_t n = 0;
    for (auto &b : g_blocks)
        if (b.live && b.opId == opId) n++;
    return n;
}

extern "C" {
void *h3sim_malloc(size_t size) {
    return doAlloc(0, size, false, (uintptr_t)__builtin_return_address(0));
}
void *h3sim_calloc(size_t num, size_t size) {
    uintptr_t site = (uintptr_t)__builtin_return_address(0);
    size_t total;
    if (__builtin_mul_overflow(num, size, &total)) {
        OpHeapCtx *c = tl_ctx ? tl_ctx : &g_unbound;
        c->allocCount++;
        c->callocCount++;
        c->failed++;
        c->fired[F_NATURAL]++;
        AllocRec rec{1, (uint64_t)-1, site, F_NATURAL};
        c->allocs.push_back(rec);
        c->log.add(0xA110C001ULL);
        c->log.add((uint64_t)-1);
        return nullptr;
    }
    return doAlloc(1, total, true, site);
}
void *h3sim_realloc(void *ptr, size_t size) {
    uintptr_t site = (uintptr_t)__builtin_return_address(0);
    if (!ptr) return doAlloc(2, size, false, site);
    if (size == 0) {
        doFree(ptr, site);
        return nullptr;
    }
    size_t oldSize = 0;
    auto it = g_byPtr.find((uint8_t *)ptr);
    if (it != g_byPtr.end() && g_blocks[it->second].live)
        oldSize = g_blocks[it->second].size;
    void *n = doAlloc(2, size, false, site);
    if (!n) return nullptr;
    memcpy(n, ptr, oldSize < size ? oldSize : size);
    doFree(ptr, site);
    return n;
}
void h3sim_free(void *ptr) {
    doFree(ptr, (uintptr_t)__builtin_return_address(0));
}

// ---- plain libc allocator calls made by the simulated copy of the library ----
// (renamed at link time, vbuild.py).  The unchanged tree makes none.  They are served from the same
// arena and tracked by the same monitors (leak, double free, red zones), but are never failed by a fault
// plan and do not take part in the request numbering, because a custom allocator never sees them.
struct BypassScope {
    bool saved;
    BypassScope() : saved(tl_bypass) { tl_bypass = true; }
    ~BypassScope() { tl_bypass = saved; }
};
static bool ownedByArena(void *p) {
#ifdef SIM_DELEGATE_MALLOC
    return g_byPtr.count((uint8_t *)p) != 0;
#else
    return g_arena && (uint8_t *)p >= g_arena && (uint8_t *)p < g_arena + ARENA_SIZE;
#endif
}
void *h3byp_malloc(size_t size) {
    BypassScope s;
    return doAlloc(0, size, false, (uintptr_t)__builtin_return_address(0));
}
void *h3byp_calloc(size_t num, size_t size) {
    BypassScope s;
    size_t total;
    if (__builtin_mul_overflow(num, size, &total)) return nullptr;
    return doAlloc(1, total, true, (uintptr_t)__builtin_return_address(0));
}
void h3byp_free(void *ptr) {
    // memory that libc itself handed to the library (strdup, getline, ...) goes back to libc
    if (ptr && !ownedByArena(ptr)) {
        free(ptr);
        return;
    }
    BypassScope s;
    doFree(ptr, (uintptr_t)__builtin_return_address(0));
}
void *h3byp_realloc(void *ptr, size_t size) {
    if (ptr && !ownedByArena(ptr)) return realloc(ptr, size);
    BypassScope s;
    uintptr_t site = (uintptr_t)__builtin_return_address(0);
    if (!ptr) return doAlloc(2, size, false, site);
    if (size == 0) {
        doFree(ptr, site);
        return nullptr;
    }
    size_t oldSize = 0;
    auto it = g_byPtr.find((uint8_t *)ptr);
    if (it != g_byPtr.end() && g_blocks[it->second].live) oldSize = g_blocks[it->second].size;
    void *n = doAlloc(2, size, false, site);
    if (!n) return nullptr;
    memcpy(n, ptr, oldSize < size ? oldSize : size);
    doFree(ptr, site);
    return n;
}
}

// ---- allocator shim of the reference copy --------------------------------
// The reference copy is compiled with the default allocator binding; its libc
// allocator calls are renamed to these at link time.  The shim is the default
// allocator made deterministic: fresh memory is always zero (what glibc hands
// out for fresh pages), requests never fail, and a bad or double free is
// ignored (counted) instead of aborting the process, so that a defective tree
// still yields a reference result and the defect is judged on the simulated
// side.
#include <unordered_map>
// The shim serves the reference copy from an arena of its own (bump allocation, 64-byte gaps, reset by the sweep
// after every reference execution), NOT from glibc: a defective tree that overruns or double-frees a block in its
// default-allocator build must not be able to corrupt the C library's heap — glibc would detect that inside malloc,
// abort while holding its arena lock, and the simulator, which recovers from the abort signal by siglongjmp, would
// deadlock on its next malloc.  (Observed with a seeded change; §11.9 of DESIGN.md.)
namespace {
const size_t REF_ARENA = (size_t)6 << 30;  // virtual, MAP_NORESERVE
uint8_t *g_refArena = nullptr;
size_t g_refBump = 0, g_refHigh = 0;
std::unordered_map<void *, size_t> g_refLive;  // block -> requested size
int64_t g_refBadFrees = 0;
void *refBump(size_t n) {
    if (!g_refArena) {
        void *m = mmap(nullptr, REF_ARENA, PROT_READ | PROT_WRITE, MAP_PRIVATE | MAP_ANONYMOUS | MAP_NORESERVE, -1, 0);
        if (m == MAP_FAILED) return nullptr;
        g_refArena = (uint8_t *)m;
    }
    size_t start = (g_refBump + 64 + 15) & ~(size_t)15;
    size_t cap = (n + 15) & ~(size_t)15;
    if (start + cap + 64 > REF_ARENA) return nullptr;
    g_refBump = start + cap;
    if (g_refBump > g_refHigh) g_refHigh = g_refBump;
    return g_refArena + start;  // fresh pages of an anonymous mapping read as zero; the sweep re-zeroes what was used
}
}  // namespace
int64_t refallocBadFrees() { return g_refBadFrees; }
int64_t refallocLive() { return (int64_t)g_refLive.size(); }
void refallocSweep() {
    g_refLive.clear();
    g_refBadFrees = 0;
    if (g_refArena && g_refHigh) {
        // give the pages back: the next use sees zero-filled memory again ("memory never used before reads as zero")
        madvise(g_refArena, (g_refHigh + 4095) & ~(size_t)4095, MADV_DONTNEED);
    }
    g_refBump = 0;
    g_refHigh = 0;
}
extern "C" {
void *refalloc_malloc(size_t n) {
    void *p = refBump(n ? n : 1);
    if (p) g_refLive[p] = n;
    return p;
}
void *refalloc_calloc(size_t a, size_t b) {
    size_t t;
    if (__builtin_mul_overflow(a, b, &t)) return nullptr;
    return refalloc_malloc(t);
}
void refalloc_free(void *p) {
    if (!p) return;
    if (!g_refLive.erase(p)) g_refBadFrees++;  // unknown or already freed: counted, otherwise ignored
}
void *refalloc_realloc(void *p, size_t n) {
    if (!p) return refalloc_malloc(n);
    auto it = g_refLive.find(p);
    if (it == g_refLive.end()) {
        g_refBadFrees++;
        return nullptr;
    }
    size_t old = it->second;
    void *q = refBump(n ? n : 1);
    if (!q) return nullptr;
    memcpy(q, p, old < n ? old : n);  // the grown tail stays zero
    g_refLive.erase(p);
    g_refLive[q] = n;
    return q;
}
}
