// api_table.cc — compiled twice: -DAPI_VAR=SIM -DAPI_PFX=   and
//                                -DAPI_VAR=REF -DAPI_PFX=ref_
#include "api.h"

#define CAT2(a, b) a##b
#define CAT(a, b) CAT2(a, b)
#define PFX(n) CAT(API_PFX, n)

extern "C" {
#define X(ret, name, args) ret PFX(name) args;
#include "api_list.inc"
#undef X
}

const H3Api API_VAR = {
#define X(ret, name, args) &PFX(name),
#include "api_list.inc"
#undef X
};

#ifdef API_DEFINE_NAMES
#include <string.h>
const char *FN_NAMES[FN_COUNT + 1] = {
#define X(ret, name, args) #name,
#include "api_list.inc"
#undef X
    nullptr};
int fnByName(const char *name) {
    for (int i = 0; i < FN_COUNT; i++)
        if (!strcmp(FN_NAMES[i], name)) return i;
    return -1;
}
#endif
