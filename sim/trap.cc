// trap.cc — write-trap on library-owned static storage (DESIGN.md §2.5).
// In the cov build the library's .data/.bss (including function-local statics)
// are renamed to h3wdata/h3wbss and fenced by page-aligned pad objects, so they
// sit alone on whole pages.  While armed, those pages are read-only; the first
// store raises SIGSEGV, the handler records (address, symbol, task, step),
// re-enables write access so that execution continues deterministically, and
// the run is marked violated.
#include "trap.h"

#include <sys/mman.h>
#include <unistd.h>

#include <algorithm>

#include "contain.h"
#include "statics.h"
#include "vsched.h"


namespace {
struct Region {
    uintptr_t lo, hi;
};
Region g_reg[4];  // simulated copy (data, bss) and reference copy (data, bss)
bool g_armed = false, g_open = false;
std::vector<TrapRec> g_traps;
std::vector<std::pair<uintptr_t, std::string>> g_dataSyms;

void protect(int prot) {
    for (auto &r : g_reg)
        if (r.hi > r.lo) mprotect((void *)r.lo, r.hi - r.lo, prot);
}

bool segvHook(void *addr, void *) {
    uintptr_t a = (uintptr_t)addr;
    if (!g_armed) return false;
    bool inside = false;
    for (auto &r : g_reg)
        if (a >= r.lo && a < r.hi) inside = true;
    if (!inside) return false;
    if (g_open) return false;  // already writable: a different fault
    TrapRec t;
    t.addr = a;
    t.task = schedCurrentTask();
    t.step = schedGlobalStep();
    if (g_traps.size() < 64) g_traps.push_back(t);
    g_open = true;
    protect(PROT_READ | PROT_WRITE);
    return true;  // retry the store
}
}  // namespace

void trapInit(const char *argv0) {
    staticsInit();
    if (!staticsAvailable()) {  // sanitizer builds: no fenced layout, trap disabled
        g_reg[0] = g_reg[1] = g_reg[2] = g_reg[3] = Region{0, 0};
        return;
    }
    for (int i = 0; i < 4; i++) {
        g_reg[i].lo = staticRegions()[i].lo;
        g_reg[i].hi = staticRegions()[i].hi;
    }
    // data symbols for reporting
    std::string txt;
    if (readFile(std::string(argv0) + ".syms", txt)) {
        size_t pos = 0;
        while (pos < txt.size()) {
            size_t e = txt.find('\n', pos);
            if (e == std::string::npos) e = txt.size();
            unsigned long long a = 0;
            char type = 0, name[256];
            if (sscanf(txt.substr(pos, e - pos).c_str(), "%llx %c %255s", &a, &type, name) == 3)
                if (strchr("dDbB", type)) g_dataSyms.emplace_back((uintptr_t)a, name);
            pos = e + 1;
        }
        std::sort(g_dataSyms.begin(), g_dataSyms.end());
    }
    g_traps.reserve(64);
    containSegvHook = segvHook;
}

size_t trapProtectedBytes() {
    // library bytes only (pads excluded)
    size_t n = 0;
    for (auto &r : g_reg)
        if (r.hi > r.lo) n += (r.hi - r.lo) - 2 * 4096;
    return n;
}

std::vector<std::string> trapProtectedSymbols() {
    std::vector<std::string> v;
    for (auto &s : g_dataSyms)
        for (auto &r : g_reg)
            if (s.first >= r.lo + 4096 && s.first < r.hi - 4096) v.push_back(s.second);
    return v;
}

void trapArm() {
    g_armed = true;
    g_open = false;
    protect(PROT_READ);
}
void trapDisarm() {
    g_armed = false;
    g_open = false;
    protect(PROT_READ | PROT_WRITE);
}
bool trapArmed() { return g_armed; }
void trapWithPagesWritable(void (*f)()) {
    bool wasProtected = g_armed && !g_open;
    if (wasProtected) protect(PROT_READ | PROT_WRITE);
    f();
    if (wasProtected) protect(PROT_READ);
}
void trapRearm() {
    if (g_armed && g_open) {
        g_open = false;
        protect(PROT_READ);
    }
}
std::vector<TrapRec> trapTake() {
    std::vector<TrapRec> t;
    t.swap(g_traps);
    return t;
}
static std::string trapSymbolBare(uintptr_t addr);
std::string trapSymbol(uintptr_t addr) {
    std::string s = trapSymbolBare(addr);
    for (int i = 2; i < 4; i++)
        if (addr >= g_reg[i].lo && addr < g_reg[i].hi)
            return s + " [default-configuration copy of the library (no H3_ALLOC_PREFIX)]";
    return s;
}
static std::string trapSymbolBare(uintptr_t addr) {
    if (g_dataSyms.empty()) return "0x" + hex64(addr);
    auto it = std::upper_bound(g_dataSyms.begin(), g_dataSyms.end(),
                               std::make_pair(addr, std::string("\x7f")));
    if (it == g_dataSyms.begin()) return "0x" + hex64(addr);
    --it;
    char b[320];
    if (addr == it->first)
        snprintf(b, sizeof b, "%s", it->second.c_str());
    else
        snprintf(b, sizeof b, "%s+%llu", it->second.c_str(),
                 (unsigned long long)(addr - it->first));
    return b;
}
