#include "contain.h"

#include <stdio.h>
#include <stdlib.h>
#include <string.h>
#include <sys/time.h>
#include <unistd.h>

bool (*containSegvHook)(void *addr, void *ucontext) = nullptr;
bool (*containSegvHookConst)(void *addr, void *ucontext) = nullptr;
bool (*containTrapHook)(void *ucontext) = nullptr;

namespace {
struct Frame {
    sigjmp_buf jb;
    bool armed = false;
    volatile int sig = 0;
    void *volatile addr = nullptr;
    volatile int status = 0;
};
thread_local Frame *tl_frame = nullptr;
// alternate stack per thread so that stack overflow inside the library (deep
// recursion in _gridDiskDistancesInternal) is containable too
thread_local void *tl_altstack = nullptr;

void handler(int sig, siginfo_t *si, void *uc) {
    if (sig == SIGSEGV && containSegvHook && containSegvHook(si->si_addr, uc))
        return;
    if (sig == SIGSEGV && containSegvHookConst && containSegvHookConst(si->si_addr, uc))
        return;
    if (sig == SIGTRAP) {
        if (containTrapHook && containTrapHook(uc)) return;
        return;  // a stray single-step trap is harmless
    }
    Frame *f = tl_frame;
    if (f && f->armed) {
        f->armed = false;
        if (sig == SIGALRM) {
            f->status = CALL_HUNG;
        } else {
            f->status = CALL_CRASHED;
            f->sig = sig;
            f->addr = si ? si->si_addr : nullptr;
        }
        siglongjmp(f->jb, 1);
    }
    if (sig == SIGALRM) return;  // stale watchdog
    // crash outside a contained call: the simulator itself is broken
    const char msg[] = "FATAL: signal outside contained call\n";
    ssize_t r = write(2, msg, sizeof msg - 1);
    (void)r;
    signal(sig, SIG_DFL);
    raise(sig);
}
}  // namespace

void containInstall() {
    if (!tl_altstack) {
        size_t sz = 1 << 16;
        tl_altstack = malloc(sz);
        stack_t ss;
        ss.ss_sp = tl_altstack;
        ss.ss_size = sz;
        ss.ss_flags = 0;
        sigaltstack(&ss, nullptr);
    }
    struct sigaction sa;
    memset(&sa, 0, sizeof sa);
    sa.sa_sigaction = handler;
    sa.sa_flags = SA_SIGINFO | SA_ONSTACK | SA_NODEFER;
    sigemptyset(&sa.sa_mask);
    int sigs[] = {SIGSEGV, SIGBUS, SIGFPE, SIGABRT, SIGILL, SIGALRM, SIGTRAP};
    for (int s : sigs) sigaction(s, &sa, nullptr);
}

void containThreadExit() {
    if (tl_altstack) {
        stack_t ss;
        memset(&ss, 0, sizeof ss);
        ss.ss_flags = SS_DISABLE;
        sigaltstack(&ss, nullptr);
        free(tl_altstack);
        tl_altstack = nullptr;
    }
}

Contained runContained(ContainedFn fn, void *arg, double wallLimitSec) {
    Frame fr;
    Frame *prev = tl_frame;
    Contained out;
    if (sigsetjmp(fr.jb, 1) == 0) {
        fr.armed = true;
        tl_frame = &fr;
        if (wallLimitSec > 0) {
            struct itimerval it;
            memset(&it, 0, sizeof it);
            it.it_value.tv_sec = (long)wallLimitSec;
            it.it_value.tv_usec = (long)((wallLimitSec - (long)wallLimitSec) * 1e6);
            setitimer(ITIMER_REAL, &it, nullptr);
        }
        fn(arg);
        fr.armed = false;
    } else {
        out.status = fr.status;
        out.sig = fr.sig;
        out.faultAddr = fr.addr;
    }
    if (wallLimitSec > 0) {
        struct itimerval it;
        memset(&it, 0, sizeof it);
        setitimer(ITIMER_REAL, &it, nullptr);
    }
    tl_frame = prev;
    return out;
}

void containAbortHung() {
    Frame *f = tl_frame;
    if (f && f->armed) {
        f->armed = false;
        f->status = CALL_HUNG;
        siglongjmp(f->jb, 1);
    }
    abort();
}
