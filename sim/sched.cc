// sched.cc — the seeded scheduler.  Exactly one task thread is released at any
// instant; all others are blocked in sem_wait.  Scheduling points are (a) every
// trace-pc-guard callback inside libh3, (b) every allocator call, (c) every
// operation boundary.  Every decision is drawn from one PRNG or, in replay,
// read from an explicit list — never from the OS.
#include "vsched.h"

#include <algorithm>

#include "ambient.h"
#include "contain.h"
#include "heap.h"
#include "single.h"

const char *POLICY_NAMES[POL_COUNT] = {"uniform", "round-robin", "starvation", "pct"};

namespace {
uint32_t *g_guardStart = nullptr, *g_guardStop = nullptr;
const uintptr_t *g_pcsBeg = nullptr, *g_pcsEnd = nullptr;
uint32_t g_nGuards = 0;
// plain array: guard_init runs from module constructors, possibly before the
// constructors of this translation unit
const uint32_t MAX_GUARDS = 1 << 16;
uint8_t g_hit[MAX_GUARDS];

struct TaskRt {
    int id = -1;
    sem_t sem;
    pthread_t th;
    bool done = false;
    int64_t opSteps = 0, opBudget = 0;
    uint32_t lastGuard = 0;
    int64_t prio = 0;
};
thread_local TaskRt *tl_rt = nullptr;
TaskRt g_soloTask;

struct SchedRt {
    bool active = false;
    SchedConfig cfg;
    Rng rng{1};
    std::vector<TaskRt *> tasks;
    int current = -1;
    int64_t step = 0;
    int64_t countdown = 0;
    size_t forcedPos = 0;
    sem_t mainSem;
    int victim = -1;
    int64_t victimLeft = 0;
    std::vector<int64_t> changePoints;
    size_t cpPos = 0;
    int64_t lowPrio = 0;
    SchedStats stats;
    const TaskBody *body = nullptr;
    int64_t soloSteps = 0;
} g;

inline bool runnable(int t) {
    return t >= 0 && t < (int)g.tasks.size() && !g.tasks[t]->done;
}
int64_t drawQuantum() { return 1 + (int64_t)g.rng.below((uint64_t)(2 * g.cfg.quantumMean)); }

int highestPrio() {
    int best = -1;
    for (auto *t : g.tasks)
        if (!t->done && (best < 0 || t->prio > g.tasks[best]->prio)) best = t->id;
    return best;
}
int randomRunnable(int exclude) {
    std::vector<int> r;
    for (auto *t : g.tasks)
        if (!t->done && t->id != exclude) r.push_back(t->id);
    if (r.empty()) return runnable(exclude) ? exclude : -1;
    return r[g.rng.below(r.size())];
}
int choose() {
    switch (g.cfg.policy) {
        case POL_ROUNDROBIN: {
            int n = (int)g.tasks.size();
            for (int d = 1; d <= n; d++) {
                int c = (g.current + d) % n;
                if (runnable(c)) return c;
            }
            return g.current;
        }
        case POL_STARVE: {
            if (g.victimLeft-- <= 0) {
                g.victim = randomRunnable(-1);
                g.victimLeft = 20 + (int64_t)g.rng.below(200);
            }
            return randomRunnable(g.victim);
        }
        default:
            return randomRunnable(-1);
    }
}

void handOver(TaskRt *me, int next, uint32_t guard) {
    g.stats.switches++;
    g.stats.recorded.push_back({g.step, next});
    Chain c;
    c.h = g.stats.signature ? g.stats.signature : c.h;
    c.add((uint64_t)(me ? me->id : 99));
    c.add(guard);
    c.add((uint64_t)next);
    g.stats.signature = c.h;
    if (me && g.stats.switchPairs.size() < 200000)
        g.stats.switchPairs.push_back(((uint64_t)guard << 32) | g.tasks[next]->lastGuard);
    g.current = next;
    sem_post(&g.tasks[next]->sem);
    if (me && !me->done) {
        while (sem_wait(&me->sem) != 0) {
        }
    }
}

// steps (within the current solo measurement) at which the library returned from a non-re-entrant libc
// facility: the preemption sweep places preemptions exactly there
std::vector<int64_t> g_soloPreferred;

void point(uint32_t guard, bool isAlloc, bool preferred = false) {
    TaskRt *t = tl_rt;
    if (!t) return;
    t->opSteps++;
    if (t->opBudget && t->opSteps > t->opBudget) {
        t->opBudget = 0;
        containAbortHung();
    }
    if (guard) t->lastGuard = guard;
    if (!g.active) {
        g.soloSteps++;
        if (preferred && g_soloPreferred.size() < 256) g_soloPreferred.push_back(g.soloSteps);
        return;
    }
    g.step++;
    if (isAlloc)
        g.stats.allocEvents++;
    else
        g.stats.guardEvents++;
    int next = -1;
    if (g.cfg.forced) {
        const auto &s = g.cfg.schedule;
        while (g.forcedPos < s.size() && s[g.forcedPos].step < g.step) g.forcedPos++;
        if (g.forcedPos < s.size() && s[g.forcedPos].step == g.step) {
            next = s[g.forcedPos].next;
            g.forcedPos++;
        }
    } else if (g.cfg.policy == POL_PCT) {
        if (g.cpPos < g.changePoints.size() && g.changePoints[g.cpPos] <= g.step) {
            g.cpPos++;
            t->prio = --g.lowPrio;
            next = highestPrio();
        }
    } else {
        // right after a call into a non-re-entrant libc facility the window in which another task can
        // disturb its hidden state is open: switch there half of the time, whatever the quantum says
        if (preferred && g.rng.chance(0.5)) g.countdown = 0;
        if (--g.countdown <= 0) {
            g.countdown = drawQuantum();
            if (g.stats.switches < g.cfg.maxSwitches) next = choose();
        }
    }
    if (next >= 0 && next != t->id && runnable(next)) handOver(t, next, guard);
}
void preferredPoint() { point(0x7ffffff0u, false, true); }

void *threadMain(void *vp) {
    TaskRt *t = (TaskRt *)vp;
    containInstall();
    tl_rt = t;
    while (sem_wait(&t->sem) != 0) {
    }
    (*g.body)(t->id);
    // finished: hand over to another runnable task, or wake the driver
    t->done = true;
    int next = -1;
    if (g.cfg.forced) {
        const auto &s = g.cfg.schedule;
        while (g.forcedPos < s.size() && s[g.forcedPos].step < g.step) g.forcedPos++;
        if (g.forcedPos < s.size() && s[g.forcedPos].step == g.step &&
            runnable(s[g.forcedPos].next)) {
            next = s[g.forcedPos].next;
            g.forcedPos++;
        } else {
            for (auto *x : g.tasks)
                if (!x->done) {
                    next = x->id;
                    break;
                }
        }
    } else if (g.cfg.policy == POL_PCT) {
        next = highestPrio();
    } else {
        next = randomRunnable(t->id);
        if (next == t->id) next = -1;
    }
    tl_rt = nullptr;
    containThreadExit();
    if (next >= 0)
        handOver(t, next, 0);
    else
        sem_post(&g.mainSem);
    return nullptr;
}

void allocHook() { point(0, true); }

// A task cannot proceed (lock held by a parked task, sleep): force a hand-over.
// In replay the recorded hand-over is found in the list at the current step.
void yieldBlocked() {
    TaskRt *t = tl_rt;
    if (!t || !g.active) return;
    int next = -1;
    if (g.cfg.forced) {
        const auto &s = g.cfg.schedule;
        while (g.forcedPos < s.size() && s[g.forcedPos].step < g.step) g.forcedPos++;
        if (g.forcedPos < s.size() && s[g.forcedPos].step == g.step && runnable(s[g.forcedPos].next)) {
            next = s[g.forcedPos].next;
            g.forcedPos++;
        } else {
            for (auto *x : g.tasks)
                if (!x->done && x->id != t->id) {
                    next = x->id;
                    break;
                }
        }
    } else {
        next = randomRunnable(t->id);
    }
    t->opSteps += 1000;  // a blocked wait costs budget, so a true deadlock ends as CALL_HUNG
    if (t->opBudget && t->opSteps > t->opBudget) {
        t->opBudget = 0;
        containAbortHung();
    }
    if (next >= 0 && next != t->id && runnable(next)) handOver(t, next, t->lastGuard);
}
}  // namespace

extern "C" {
void __sanitizer_cov_trace_pc_guard_init(uint32_t *start, uint32_t *stop) {
    if (start == stop || *start) return;
    if (!g_guardStart) {
        g_guardStart = start;
        g_guardStop = stop;
    }
    for (uint32_t *x = start; x < stop; x++) *x = ++g_nGuards;
}
void __sanitizer_cov_pcs_init(const uintptr_t *beg, const uintptr_t *end) {
    if (!g_pcsBeg) {
        g_pcsBeg = beg;
        g_pcsEnd = end;
    }
}
void __sanitizer_cov_trace_pc_guard(uint32_t *guard) {
    uint32_t id = *guard;
    if (id < MAX_GUARDS) g_hit[id] = 1;
    if (tl_rt) point(id, false);
}
// gcc builds (-fsanitize-coverage=trace-pc, variant sim-tp): one callback per basic block, identified by its
// return address.  Same role as the clang guards: a preemption point at every control-flow edge, here in code
// generated by the shipped compiler.  No pc table in this mode, so no per-edge coverage map.
void __sanitizer_cov_trace_pc(void) {
    if (tl_rt) point((uint32_t)((uintptr_t)__builtin_return_address(0) & 0x7fffffffu) | 0x80000000u, false);
}
}

SchedStats schedRun(int nTasks, const SchedConfig &cfg, const TaskBody &body) {
    heapSchedHook = allocHook;
    ambientYieldHook = yieldBlocked;
    ambientPreferHook = preferredPoint;
    g.cfg = cfg;
    g.rng.reseed(cfg.seed);
    g.tasks.clear();
    g.step = 0;
    g.forcedPos = 0;
    g.stats = SchedStats();
    g.body = &body;
    g.victim = -1;
    g.victimLeft = 0;
    g.lowPrio = 0;
    g.cpPos = 0;
    g.changePoints.clear();
    sem_init(&g.mainSem, 0, 0);
    std::vector<TaskRt> rts((size_t)nTasks);
    for (int i = 0; i < nTasks; i++) {
        rts[i].id = i;
        sem_init(&rts[i].sem, 0, 0);
        g.tasks.push_back(&rts[i]);
    }
    if (!cfg.forced) {
        // all draws that configure the schedule happen here, in fixed order
        std::vector<int64_t> pr;
        for (int i = 0; i < nTasks; i++) pr.push_back(i + 1);
        g.rng.shuffle(pr);
        for (int i = 0; i < nTasks; i++) rts[i].prio = pr[i];
        if (cfg.policy == POL_PCT) {
            for (int i = 0; i < cfg.pctDepth; i++)
                g.changePoints.push_back(1 + (int64_t)g.rng.below((uint64_t)std::max<int64_t>(1, cfg.pctHorizon)));
            std::sort(g.changePoints.begin(), g.changePoints.end());
        }
        g.countdown = drawQuantum();
    }
    pthread_attr_t attr;
    pthread_attr_init(&attr);
    pthread_attr_setstacksize(&attr, 8 << 20);
    for (int i = 0; i < nTasks; i++)
        pthread_create(&rts[i].th, &attr, threadMain, &rts[i]);
    pthread_attr_destroy(&attr);
    int first;
    if (cfg.forced) {
        first = (!cfg.schedule.empty() && cfg.schedule[0].step == 0 &&
                 cfg.schedule[0].next < nTasks && cfg.schedule[0].next >= 0)
                    ? cfg.schedule[0].next
                    : 0;
        if (!cfg.schedule.empty() && cfg.schedule[0].step == 0) g.forcedPos = 1;
    } else if (cfg.policy == POL_PCT) {
        first = highestPrio();
    } else {
        first = (int)g.rng.below((uint64_t)nTasks);
    }
    g.active = true;
    handOver(nullptr, first, 0);
    while (sem_wait(&g.mainSem) != 0) {
    }
    for (int i = 0; i < nTasks; i++) pthread_join(rts[i].th, nullptr);
    g.active = false;
    for (int i = 0; i < nTasks; i++) sem_destroy(&rts[i].sem);
    sem_destroy(&g.mainSem);
    g.tasks.clear();
    g.stats.steps = g.step;
    return g.stats;
}

void schedSoloBegin() {
    heapSchedHook = allocHook;
    ambientPreferHook = preferredPoint;
    g_soloTask.id = -1;
    g_soloTask.opSteps = 0;
    g_soloTask.opBudget = 0;
    tl_rt = &g_soloTask;
    g.soloSteps = 0;
    g_soloPreferred.clear();
}
std::vector<int64_t> schedSoloPreferredSteps() { return g_soloPreferred; }
int64_t schedSoloEnd() {
    tl_rt = nullptr;
    return g.soloSteps;
}
void schedSetOpBudget(int64_t budget) {
    if (tl_rt) {
        tl_rt->opSteps = 0;
        tl_rt->opBudget = budget;
    }
}
int64_t schedOpSteps() { return tl_rt ? tl_rt->opSteps : 0; }
void schedOpBoundary() { point(0, false); }
int schedCurrentTask() { return tl_rt ? tl_rt->id : -1; }
int64_t schedGlobalStep() { return g.step; }

int guardCount() { return (int)g_nGuards; }
int guardsCovered() {
    int n = 0;
    for (uint32_t i = 1; i <= g_nGuards && i < MAX_GUARDS; i++) n += g_hit[i];
    return n;
}
void guardCoverageReset() { memset(g_hit, 0, sizeof g_hit); }
std::vector<uint32_t> guardCoveredIds() {
    std::vector<uint32_t> v;
    for (uint32_t i = 1; i <= g_nGuards && i < MAX_GUARDS; i++)
        if (g_hit[i]) v.push_back(i);
    return v;
}
static std::string fnOfGuard(uint32_t id) {
    if (!g_pcsBeg || id == 0) return "?";
    const uintptr_t *e = g_pcsBeg + 2 * (size_t)(id - 1);
    if (e + 1 >= g_pcsEnd) return "?";
    std::string s = symName(e[0]);
    size_t p = s.rfind('+');
    return p == std::string::npos ? s : s.substr(0, p);
}
int guardFunctionsTotal() {
    std::set<std::string> all;
    for (uint32_t i = 1; i <= g_nGuards; i++) all.insert(fnOfGuard(i));
    return (int)all.size();
}
std::vector<std::string> guardFunctionsNeverEntered() {
    std::set<std::string> all, hit;
    for (uint32_t i = 1; i <= g_nGuards; i++) {
        std::string f = fnOfGuard(i);
        all.insert(f);
        if (i < MAX_GUARDS && g_hit[i]) hit.insert(f);
    }
    std::vector<std::string> v;
    for (auto &f : all)
        if (!hit.count(f)) v.push_back(f);
    return v;
}

// function name of every guard, index = guard id - 1
std::vector<std::string> guardFunctionNames() {
    std::vector<std::string> v;
    for (uint32_t i = 1; i <= g_nGuards; i++) v.push_back(fnOfGuard(i));
    return v;
}

// pc of every guard (from the pc-table), index = guard id - 1
std::vector<uint64_t> guardPcs() {
    std::vector<uint64_t> v;
    for (uint32_t i = 1; i <= g_nGuards; i++) {
        const uintptr_t *e = g_pcsBeg ? g_pcsBeg + 2 * (size_t)(i - 1) : nullptr;
        v.push_back(e && e + 1 < g_pcsEnd ? (uint64_t)e[0] : 0);
    }
    return v;
}

// Runs f on a newly created thread (8 MiB stack, crash containment installed) and waits for it.  Used for the
// sequential reference of C18: "the call executed alone" means alone on a thread with no history — pristine
// thread-local storage, errno 0 — so that a result which depends on the calls made earlier on the same thread
// differs from it.
namespace {
void *freshMain(void *vp) {
    containInstall();
    {
        // the wall-clock watchdog of the single-threaded modes (SIGALRM, process-directed) must reach THIS thread:
        // the creator keeps it blocked while it waits
        sigset_t a;
        sigemptyset(&a);
        sigaddset(&a, SIGALRM);
        pthread_sigmask(SIG_UNBLOCK, &a, nullptr);
    }
    (*(std::function<void()> *)vp)();
    containThreadExit();
    return nullptr;
}
}  // namespace
void schedRunOnFreshThread(const std::function<void()> &f, size_t stackBytes) {
    pthread_attr_t attr;
    pthread_attr_init(&attr);
    pthread_attr_setstacksize(&attr, stackBytes ? stackBytes : (size_t)(8 << 20));
    pthread_t th;
    std::function<void()> copy = f;
    sigset_t a, old;
    sigemptyset(&a);
    sigaddset(&a, SIGALRM);
    pthread_sigmask(SIG_BLOCK, &a, &old);
    if (pthread_create(&th, &attr, freshMain, &copy) != 0) {
        pthread_attr_destroy(&attr);
        pthread_sigmask(SIG_SETMASK, &old, nullptr);
        f();  // cannot create a thread: run in place
        return;
    }
    pthread_attr_destroy(&attr);
    pthread_join(th, nullptr);
    pthread_sigmask(SIG_SETMASK, &old, nullptr);
}
