// c17.cc — C17: allocation failure is reported cleanly and nothing leaks.
// One run = one generated input + the complete enumeration of its
// single-allocation failures (F1, F2) + seeded samples of F3..F6, each under
// freshly drawn legal-behaviour knobs of the simulated heap.
#include "runner.h"
#include "ambient.h"

#include <algorithm>

namespace {

struct RunOut {
    JP line;                    // what the worker prints for this run
    std::vector<JP> violations;
};

void addProbe(std::set<std::string> &probes, const std::string &p) {
    probes.insert(p);
}
bool argDirty(const Op &op) { return op.ints.size() > 2 && op.ints[2] != 0; }

// reach probes derived from one execution (DESIGN.md §4.1 "Reach probes")
void probesFor(const Case &c, const ExecReport &rep, int64_t nBenign,
               std::set<std::string> &probes) {
    const Op &op = c.op;
    const OpHeapCtx &h = rep.heap;
    int64_t firstFailed = 0, k = 0;
    for (auto &a : h.allocs) {
        k++;
        if (a.failedBy) {
            firstFailed = k;
            break;
        }
    }
    std::string fn = FN_NAMES[op.fn];
    if (firstFailed) {
        addProbe(probes, fn + ".alloc-failed");
        if (op.fn == FN_polygonToCells && firstFailed >= 4)
            addProbe(probes, "polygonToCells.nested-gridDisk-alloc-failed");
        if (op.fn == FN_areNeighborCells)
            addProbe(probes, "areNeighborCells.inner-gridDisk-alloc-failed");
        if (op.fn == FN_compactCells && firstFailed >= 5)
            addProbe(probes, "compactCells.failed-in-round>=3");
        if (op.fn == FN_compactCells && firstFailed == 4)
            addProbe(probes, "compactCells.failed-in-round2");
        if ((op.fn == FN_gridDisk || op.fn == FN_gridDiskDistances))
            addProbe(probes, "gridDisk.fallback-alloc-failed");
    } else if (rep.res.status == CALL_RETURNED) {
        int64_t rc = rep.res.rc;
        int64_t n = h.allocCount;
        if (op.fn == FN_compactCells) {
            if (n >= 5) addProbe(probes, "compactCells.rounds>=3");
            if (n >= 2 && rc == E_CELL_INVALID)
                addProbe(probes, "compactCells.error-with-blocks-live:E_CELL_INVALID");
            if (n >= 2 && rc == E_DUPLICATE_INPUT)
                addProbe(probes, "compactCells.error-with-blocks-live:E_DUPLICATE_INPUT");
            if (n >= 2 && (rc == E_RES_MISMATCH || rc == E_RES_DOMAIN))
                addProbe(probes, "compactCells.error-with-blocks-live:cellToParent-error");
            if (n == 0) addProbe(probes, "compactCells.no-alloc-path");
            if (n >= 3 && rc == E_DUPLICATE_INPUT)
                addProbe(probes, "compactCells.error-exit-in-a-later-round:E_DUPLICATE_INPUT");
        }
        if (op.fn == FN_gridDisk || op.fn == FN_gridDiskDistances) {
            if (n == 1 && rc != 0)
                addProbe(probes, "gridDisk.fallback-error-with-block-live");
            if (n == 1 && rc == 0) addProbe(probes, "gridDisk.fallback-alloc");
            if (n == 0) addProbe(probes, "gridDisk.no-alloc-path");
        }
        if (op.fn == FN_areNeighborCells) {
            if (n == 1) addProbe(probes, "areNeighborCells.inner-gridDisk-alloc");
            if (n == 0) addProbe(probes, "areNeighborCells.no-alloc-path");
        }
        if (op.fn == FN_polygonToCells) {
            if (n > 3) addProbe(probes, "polygonToCells.nested-gridDisk-alloc");
            if (n == 0 && rc != 0) addProbe(probes, "polygonToCells.flag-error");
            if (n == 1 && rc != 0)
                addProbe(probes, "polygonToCells.estimate-error-with-1-block-live");
            if (n == 3 && rc != 0 && rc != E_FAILED)
                addProbe(probes, "polygonToCells.edge-trace-error-with-3-blocks-live");
            if (n >= 3 && rc == E_FAILED)
                addProbe(probes, "polygonToCells.E_FAILED-with-3-blocks-live");
            if (c.op.loops.size() > 1 && rc == 0)
                addProbe(probes, "polygonToCells.with-holes");
            if (n >= 3 && rc == E_FAILED && argDirty(c.op))
                addProbe(probes, "polygonToCells.E_FAILED-in-fill-loop-with-3-blocks-live");
        }
        if (op.fn == FN_polygonToCellsExperimental) {
            if (rc == E_MEMORY_BOUNDS && n == 1)
                addProbe(probes, "polygonToCellsExperimental.E_MEMORY_BOUNDS-with-block-live");
            if (n == 0 && rc != 0)
                addProbe(probes, "polygonToCellsExperimental.arg-error-no-alloc");
            if (n == 1 && rc != 0 && rc != E_MEMORY_BOUNDS)
                addProbe(probes, "polygonToCellsExperimental.cell-error-with-block-live");
            if (c.op.loops.size() > 1 && rc == 0)
                addProbe(probes, "polygonToCellsExperimental.with-holes");
        }
        if (op.fn == FN_maxPolygonToCellsSizeExperimental) {
            if (n == 0 && rc == 0)
                addProbe(probes, "maxPolygonToCellsSizeExperimental.0-vertex-no-alloc");
            if (n == 0 && rc != 0)
                addProbe(probes, "maxPolygonToCellsSizeExperimental.arg-error-no-alloc");
        }
    }
    (void)nBenign;
}

}  // namespace

// Executes case, judges it, folds into chain; on violation fills viol (first
// verdict only) and returns true.
static bool stepC17(const Case &c, const Result &ref, RunStats &st,
                    Chain &chain, JP &viol, std::set<std::string> &probes,
                    int64_t nBenign) {
    ExecReport rep = simExec(c);
    st.execs++;
    chain.add(rep.res.digest());
    chain.add(rep.heap.log.h);
    for (int k = 1; k < F_KINDS; k++) st.fired[k] += rep.heap.fired[k];
    st.bypassAllocs += rep.heap.bypassAllocs;
    if (rep.heap.failed > 0) {
        st.faultedExecs++;
        // distinct fault scenario: function, site sequence, first failing
        // index, fault kind
        Chain sc;
        sc.add((uint64_t)c.op.fn);
        int64_t idx = 0, k = 0;
        for (auto &a : rep.heap.allocs) {
            k++;
            sc.add(a.site);
            if (a.failedBy && !idx) idx = k;
        }
        sc.add((uint64_t)idx);
        sc.add((uint64_t)c.op.fault.kind);
        st.scenarios.insert(sc.h);
        st.cases.insert(mix2(mix2(c.op.hash(), (uint64_t)c.op.fault.kind), (uint64_t)idx));
        for (auto &a : rep.heap.allocs)
            if (a.failedBy) st.sitesFailed.insert(symName(a.site));
    }
    for (auto &a : rep.heap.allocs) st.sitesReached.insert(symName(a.site));
    probesFor(c, rep, nBenign, probes);
    std::vector<Verdict> vs = judgeC17(c, ref, rep);
    if (vs.empty()) return false;
    const Verdict &v = vs[0];
    viol = JVal::obj();
    viol->set("property", "C17");
    viol->set("class", v.oracle);
    viol->set("fn", FN_NAMES[c.op.fn]);
    viol->set("detail", v.detail);
    viol->set("site", symName(v.site));
    viol->set("case", c.toJson());
    return true;
}

JP runC17(uint64_t runSeed, int64_t runIdx, const TierCfg &cfg) {
    Rng rng(runSeed);
    Gen gen(rng);
    gen.boost = cfg.tier == "thorough" ? 1 : 0;
    RunStats st;
    Chain chain;
    std::set<std::string> probes;
    JP line = JVal::obj();
    line->set("run", runIdx);
    line->set("seed", hex64(runSeed));

    HeapKnobs knobs = HeapKnobs::draw(rng);
    // the first runs of every sweep are a fixed catalogue (every pentagon at every
    // resolution for each allocation structure); the rest is generated from the seed
    Op op;
    if (!gen.catalogueC17(runIdx, op)) op = gen.c17Op();
    chain.add(op.hash());
    line->set("fn", FN_NAMES[op.fn]);
    line->set("tag", op.tag);
    line->set("op_brief", op.brief());

    JP violations = JVal::arr();
    Result ref;
    std::string why;
    ambientResetStreams();
    if (!attributable(op, ref, why)) {
        line->set("observation", why + ": " + op.brief());
        line->set("observation_op", op.toJson(false));
        line->set("hash", hex64(chain.h));
        line->set("execs", (int64_t)0);
        line->set("violations", violations);
        return line;
    }
    chain.add(ref.digest());
    line->set("ref", ref.brief());

    // 1. fault-free, benign heap
    Case base;
    base.op = op;
    base.op.fault = FaultPlan();
    base.knobs = HeapKnobs::benign();
    base.fillSeed = rng.u64();
    JP viol;
    int64_t n = 0;
    std::vector<uint64_t> sizes;
    {
        ExecReport rep = simExec(base);
        n = rep.heap.allocCount;
        for (auto &a : rep.heap.allocs) sizes.push_back(a.size);
    }
    bool stop = false;
    auto step = [&](const Case &c) {
        if (stop) return;
        if (stepC17(c, ref, st, chain, viol, probes, n)) {
            violations->push(viol);
            stop = true;  // one violation per run is enough; classes are
                          // collected across runs
        }
    };
    step(base);
    // 2. fault-free under drawn knobs (twice)
    for (int i = 0; i < 2 && !stop; i++) {
        Case c = base;
        c.knobs = i == 0 ? knobs : HeapKnobs::draw(rng);
        if (i == 1) c.knobs.smallStack = 1;
        c.fillSeed = rng.u64();
        step(c);
    }
    line->set("n_alloc", n);
    {
        // how large this input is, in the unit that drives the function's allocations (for the evidence)
        int64_t sz = (int64_t)op.cells.size();
        if (op.fn == FN_gridDisk || op.fn == FN_gridDiskDistances) sz = op.ints.empty() ? 0 : op.ints[0];
        if (!op.loops.empty()) sz = std::max<int64_t>((int64_t)(ref.out.size() / 8), (int64_t)op.loops[0].size());
        line->set("input_size", sz);
    }
    // 3. complete enumeration of single failures
    int64_t enumN = n;
    bool exhaustive = true;
    std::vector<int64_t> idxs;
    if (n > cfg.maxEnum) {
        exhaustive = false;
        std::set<int64_t> pick;
        // always the first and last few, the rest sampled
        for (int64_t i = 1; i <= 8 && i <= n; i++) pick.insert(i);
        for (int64_t i = n; i > n - 8 && i >= 1; i--) pick.insert(i);
        while ((int64_t)pick.size() < cfg.maxEnum) pick.insert(rng.range(1, n));
        idxs.assign(pick.begin(), pick.end());
        enumN = (int64_t)idxs.size();
    } else {
        for (int64_t i = 1; i <= n; i++) idxs.push_back(i);
    }
    for (int pass = 0; pass < 2 && !stop; pass++) {
        for (int64_t i : idxs) {
            if (stop) break;
            Case c = base;
            c.knobs = HeapKnobs::draw(rng);
            c.fillSeed = rng.u64();
            c.op.fault.kind = pass == 0 ? F1_NTH : F2_FROM_NTH;
            c.op.fault.n = i;
            step(c);
        }
    }
    // 4. sampled multi-fault plans
    if (n > 0) {
        for (int s = 0; s < cfg.samplesPerKind && !stop; s++) {
            // F3
            Case c = base;
            c.knobs = HeapKnobs::draw(rng);
            c.fillSeed = rng.u64();
            static const double ps[] = {0.05, 0.1, 0.2, 0.35, 0.5};
            c.op.fault.kind = F3_BERNOULLI;
            c.op.fault.p = ps[rng.below(5)];
            c.op.fault.seed = rng.u64();
            step(c);
            // F4
            c = base;
            c.knobs = HeapKnobs::draw(rng);
            c.fillSeed = rng.u64();
            c.op.fault.kind = F4_BY_SIZE;
            c.op.fault.size = (int64_t)sizes[rng.below(sizes.size())];
            c.op.fault.ge = rng.chance(0.5) ? 1 : 0;
            step(c);
            // F5
            c = base;
            c.knobs = HeapKnobs::draw(rng);
            c.fillSeed = rng.u64();
            c.op.fault.kind = F5_NTH_OF_KIND;
            c.op.fault.which = rng.chance(0.5) ? 1 : 0;
            c.op.fault.n = rng.range(1, std::max<int64_t>(1, n));
            step(c);
            // F6
            c = base;
            c.knobs = HeapKnobs::draw(rng);
            c.fillSeed = rng.u64();
            c.op.fault.kind = F6_CAPACITY;
            {
                uint64_t total = 0;
                for (auto z : sizes) total += z;
                c.op.fault.capacity = (int64_t)rng.below(total + 1);
            }
            step(c);
        }
    }
    // 5. the retry: after all those refused requests the same call once more, fault-free, on the same thread.
    // Whatever a failed call left behind outside the heap (a per-thread cache filled half-way, a stale key) meets
    // its first reader here; "when no allocation fails ... results are identical to the default allocator's".
    for (int variant = 0; variant < 2 && n > 0 && !stop; variant++) {
        Case c = base;
        c.knobs = HeapKnobs::draw(rng);
        c.fillSeed = rng.u64();
        c.retryAfter.kind = variant == 0 ? F2_FROM_NTH : F1_NTH;
        c.retryAfter.n = variant == 0 ? 1 : n;
        step(c);
    }
    line->set("enumerated", enumN);
    line->setb("exhaustive_single_faults", exhaustive);
    line->set("hash", hex64(chain.h));
    st.toJson(*line);
    JP pa = JVal::arr();
    for (auto &p : probes) pa->push(JVal::str(p));
    line->set("probes", pa);
    line->set("violations", violations);
    if (cfg.wantSample) {
        Case c = base;
        if (n > 0) {
            c.op.fault.kind = F1_NTH;
            c.op.fault.n = n;
        }
        line->set("sample", c.toJson());
    }
    return line;
}

// Re-execute one recorded case and report the verdicts (used by replay and
// by the minimiser).  Returns verdict classes; empty = no violation.
std::vector<Verdict> replayCaseC17(const Case &c, std::string &note) {
    Result ref;
    std::string why;
    std::vector<Verdict> none;
    ambientResetStreams();
    if (!attributable(c.op, ref, why)) {
        note = "operation not attributable: " + why;
        return none;
    }
    ExecReport rep = simExec(c);
    note = "result " + rep.res.brief() + ", " +
           std::to_string(rep.heap.allocCount) + " allocation request(s), " +
           std::to_string(rep.heap.failed) + " failed; reference " + ref.brief();
    return judgeC17(c, ref, rep);
}
