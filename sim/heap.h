// heap.h — the simulated heap that libh3 sees through -DH3_ALLOC_PREFIX=h3sim_
// (DESIGN.md §2.3).  The simulator owns every decision: placement, fill,
// failure.  All monitors raise HeapViolation records at the event.
#pragma once
#include <string>
#include <vector>

#include "util.h"

struct HeapKnobs {
    int fill = 0;          // 0 seeded garbage, 1 0x00, 2 0xFF
    int poison = 1;        // poison freed payloads with 0xDD and verify
    int placement = 0;     // 0 bump (never reuse), 1 LIFO reuse, 2 first-fit
    int redzone = 64;      // bytes before and after every block
    int64_t capacity = 0;  // 0 = unlimited, else max live payload bytes
    int smallStack = 0;    // 1: the call runs on a thread with a 512 KiB stack (8 MiB otherwise)
    JP toJson() const;
    static HeapKnobs fromJson(const JVal &j);
    static HeapKnobs benign();
    static HeapKnobs draw(Rng &r);
};

enum FaultKind {
    F_NONE = 0,
    F1_NTH = 1,
    F2_FROM_NTH = 2,
    F3_BERNOULLI = 3,
    F4_BY_SIZE = 4,
    F5_NTH_OF_KIND = 5,
    F6_CAPACITY = 6,
    F_NATURAL = 7,  // not injected: overflowing calloc / arena exhausted
    F_KINDS = 8
};
extern const char *FAULT_NAMES[F_KINDS];

struct FaultPlan {
    int kind = F_NONE;
    int64_t n = 0;         // F1/F2/F5: 1-based index
    double p = 0;          // F3
    int64_t size = 0;      // F4 threshold
    int ge = 1;            // F4: 1 fail sizes >= size, 0 fail sizes <= size
    int which = 0;         // F5: 0 malloc, 1 calloc
    uint64_t seed = 0;     // F3 stream
    int64_t capacity = 0;  // F6: live-byte capacity for this operation
    JP toJson() const;
    static FaultPlan fromJson(const JVal &j);
    std::string brief() const;
};

struct HeapViolation {
    std::string kind;    // leak, double-free, bad-free, foreign-free,
                         // redzone, use-after-free
    std::string detail;
    int64_t event = 0;
    uintptr_t site = 0;
};

struct AllocRec {
    uint8_t kind;  // 0 malloc, 1 calloc, 2 realloc
    uint64_t size;
    uintptr_t site;
    uint8_t failedBy;  // FaultKind, 0 = succeeded
};

// Per operation (and, under the scheduler, per task) view of the heap.
struct OpHeapCtx {
    int task = 0;
    uint64_t opId = 0;
    uint64_t fillSeed = 0;
    FaultPlan plan;
    Rng faultRng{1};
    int64_t allocCount = 0, mallocCount = 0, callocCount = 0, frees = 0;
    int64_t failed = 0;
    int64_t bypassAllocs = 0;  // requests the library made with the plain libc allocator (not through the seam)
    int64_t fired[F_KINDS] = {0};
    int64_t liveBytesOp = 0;  // live payload bytes allocated by this op
    std::vector<AllocRec> allocs;
    std::vector<HeapViolation> violations;
    Chain log;
    void begin(int task_, uint64_t opId_, uint64_t fillSeed_,
               const FaultPlan &p) {
        *this = OpHeapCtx();
        task = task_;
        opId = opId_;
        fillSeed = fillSeed_;
        plan = p;
        faultRng.reseed(p.seed ^ 0x5eedfa17ULL);
    }
};

void heapInit();
// Forget every block; new knobs. Must not be called while an op is running.
void heapReset(const HeapKnobs &k);
const HeapKnobs &heapKnobs();
// Bind the calling thread's allocations to ctx (nullptr = unbound).
void heapBind(OpHeapCtx *ctx);
OpHeapCtx *heapBound();
// End-of-operation audit: red zones of live blocks, poison of freed blocks,
// and (if expectEmpty) conservation: no block of this op is still live.
void heapAudit(OpHeapCtx *ctx, bool expectEmpty);
// After a crash inside the library: drop the blocks of this op silently.
void heapAbandonOp(OpHeapCtx *ctx);
int64_t heapLiveBlocksOfTask(int task);
int64_t heapLiveBlocksOfOp(uint64_t opId);
int64_t heapTotalAllocs();
// hook invoked at every allocator entry (scheduler yields here); may be null
extern void (*heapSchedHook)(void);

// reference-copy allocator shim (see heap.cc)
int64_t refallocBadFrees();
int64_t refallocLive();
void refallocSweep();

extern "C" {
void *h3sim_malloc(size_t size);
void *h3sim_calloc(size_t num, size_t size);
void *h3sim_realloc(void *ptr, size_t size);
void h3sim_free(void *ptr);
void *h3byp_malloc(size_t size);
void *h3byp_calloc(size_t num, size_t size);
void *h3byp_realloc(void *ptr, size_t size);
void h3byp_free(void *ptr);
}
