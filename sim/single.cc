#include "single.h"

#include "ambient.h"
#include "statics.h"
#include "vsched.h"
#include "trap.h"

#include <algorithm>
#include <time.h>

double g_wallLimit = 20.0;
// wall time of the last reference execution (attribution pre-run).  The watchdog of the simulated executions of the
// same operation is g_wallLimit + 60 x this, so that an operation that is merely slow (large input, loaded machine)
// can never be mistaken for one that does not return.  Diagnostics of the harness only: never part of a hash.
static double g_lastRefSeconds = 0;
static double nowSeconds() {
    struct timespec ts;
    clock_gettime(CLOCK_MONOTONIC, &ts);
    return (double)ts.tv_sec + 1e-9 * (double)ts.tv_nsec;
}

JP Case::toJson() const {
    JP j = JVal::obj();
    j->set("op", op.toJson(true));
    j->set("knobs", knobs.toJson());
    j->set("fillSeed", hex64(fillSeed));
    if (retryAfter.kind != F_NONE) j->set("retry_after_failed_attempt", retryAfter.toJson());
    return j;
}
Case Case::fromJson(const JVal &j) {
    Case c;
    if (JP o = j.get("op")) c.op = Op::fromJson(*o);
    if (JP k = j.get("knobs")) c.knobs = HeapKnobs::fromJson(*k);
    c.fillSeed = strtoull(j.gets("fillSeed", "0").c_str(), nullptr, 16);
    if (JP ra = j.get("retry_after_failed_attempt")) c.retryAfter = FaultPlan::fromJson(*ra);
    return c;
}

namespace {
uint64_t g_opSerial = 0;
struct LinkedProbe {
    OpHeapCtx *ctx;
    int64_t liveAtError = -1;
    int64_t liveAtSuccess = -1;
};
void afterLinkedHook(int64_t rc, void *user) {
    LinkedProbe *p = (LinkedProbe *)user;
    if (rc != 0)
        p->liveAtError = heapLiveBlocksOfOp(p->ctx->opId);
    else
        p->liveAtSuccess = heapLiveBlocksOfOp(p->ctx->opId);
}
}  // namespace

// Every simulated execution runs on a thread created for it (pristine thread-local storage), so that executions
// are independent of each other also with respect to per-thread state of the library; simExecSequence runs several
// executions on ONE such thread, which is how "the call failed, the caller retries" is modelled.
static thread_local bool tl_simInline = false;
static ExecReport simExecBody(const Case &c, bool linkedAuditHook);
ExecReport simExec(const Case &c, bool linkedAuditHook) {
    if (tl_simInline) return simExecBody(c, linkedAuditHook);
    ExecReport rep;
    // a quarter of the fault-free executions run on a 512 KiB stack: recursion or stack arrays that grow with the input
    // overflow there long before they overflow an 8 MiB main-thread stack
    schedRunOnFreshThread(
        [&]() {
            tl_simInline = true;
            rep = simExecBody(c, linkedAuditHook);
        },
        c.knobs.smallStack ? (size_t)512 << 10 : 0);
    return rep;
}
static ExecReport simExecBody(const Case &c, bool linkedAuditHook) {
    if (c.retryAfter.kind != F_NONE) {
        // the failed first attempt, on this same thread; only what it leaves behind matters
        Case first = c;
        first.retryAfter = FaultPlan();
        first.op.fault = c.retryAfter;
        (void)simExecBody(first, false);
    }
    ExecReport rep;
    staticsRestore();  // pristine library statics: executions are independent
    heapReset(c.knobs);
    rep.heap.begin(0, ++g_opSerial, c.fillSeed, c.op.fault);
    heapBind(&rep.heap);
    ExecOpts opts;
    opts.wallLimitSec = g_wallLimit + 60.0 * g_lastRefSeconds;
    LinkedProbe probe;
    probe.ctx = &rep.heap;
    if (linkedAuditHook) {
        opts.afterLinked = afterLinkedHook;
        opts.user = &probe;
    }
    opts.entryErrno = entryErrnoFor(c.fillSeed);  // the reference runs with errno 0 on entry
    rep.res = execOp(SIM, c.op, opts);
    heapBind(nullptr);
    ambientRestore(true);  // hygiene: the next execution starts from the default rounding mode / locale
    if (rep.res.status != CALL_RETURNED)
        heapAbandonOp(&rep.heap);
    else
        heapAudit(&rep.heap, true);
    if (probe.liveAtError > 0) rep.res.leftoverOnError = true;
    return rep;
}

bool attributable(const Op &op, Result &ref, std::string &why) {
    ExecOpts o;
    o.wallLimitSec = g_wallLimit;
    refallocSweep();
    // pristine static storage for the reference copy before every one of its executions: its heap is swept after each,
    // so static state that points into that heap (a free list, a cached block) must not survive either
    trapWithPagesWritable(staticsRestoreRef);
    double t0 = nowSeconds();
    ref = execOp(REF, op, o);
    g_lastRefSeconds = nowSeconds() - t0;
    ref.refLive = ref.status == CALL_RETURNED ? refallocLive() : 0;
    ref.refBadFrees = ref.status == CALL_RETURNED ? refallocBadFrees() : 0;
    refallocSweep();
    ambientRestore(true);
    if (ref.skipped) {
        why = "harness precondition not met (output too large / no defined size)";
        return false;
    }
    if (ref.status != CALL_RETURNED) {
        why = std::string("reference execution ") +
              (ref.status == CALL_CRASHED ? "crashed" : "exceeded its time budget") +
              " without any fault";
        return false;
    }
    if (!ref.guardsOk) {
        why = "reference execution wrote outside the caller's buffers";
        return false;
    }
    trapWithPagesWritable(staticsRestoreRef);
    Result again = execOp(REF, op, o);
    refallocSweep();
    trapWithPagesWritable(staticsRestoreRef);
    ambientRestore(true);
    if (!again.sameAs(ref)) {
        why = "reference execution is not repeatable";
        return false;
    }
    return true;
}

static void heapVerdicts(const ExecReport &rep, std::vector<Verdict> &v) {
    for (auto &hv : rep.heap.violations) {
        Verdict x;
        if (hv.kind == "leak")
            x.oracle = "O3-leak";
        else if (hv.kind == "double-free" || hv.kind == "bad-free" ||
                 hv.kind == "foreign-free")
            x.oracle = "O4-" + hv.kind;
        else
            x.oracle = "O6-" + hv.kind;
        x.detail = hv.detail;
        x.site = hv.site;
        v.push_back(x);
    }
    if (!rep.res.guardsOk && rep.res.status == CALL_RETURNED) {
        Verdict x;
        x.oracle = "O6-caller-buffer";
        x.detail =
            "guard bytes around a caller-owned buffer (or a const input) were "
            "modified";
        v.push_back(x);
    }
}

// The same tree built with the DEFAULT allocator binding (the reference copy) must balance its allocations too:
// that build contains the code under "#ifndef H3_ALLOC_PREFIX", which the simulated copy does not.
static void refBalanceVerdicts(const Result &ref, const char *leakClass, const char *freeClass,
                               std::vector<Verdict> &v) {
    if (ref.refLive > 0)
        v.push_back({leakClass,
                     std::to_string(ref.refLive) +
                         " block(s) still allocated when the call returned in the default-allocator build of the "
                         "same tree (code compiled only without H3_ALLOC_PREFIX)",
                     0});
    if (ref.refBadFrees > 0)
        v.push_back({freeClass,
                     std::to_string(ref.refBadFrees) +
                         " free() of a pointer that is not a live block in the default-allocator build of the same tree",
                     0});
}

std::vector<Verdict> judgeC17(const Case &c, const Result &ref,
                              const ExecReport &rep) {
    std::vector<Verdict> v;
    const Result &r = rep.res;
    if (r.status == CALL_CRASHED) {
        v.push_back({"O1-crash",
                     "call did not return: signal " + std::to_string(r.sig) +
                         " under " + c.op.fault.brief(),
                     0});
        return v;
    }
    if (r.status == CALL_HUNG) {
        v.push_back({"O1-hang",
                     "call did not return within the budget under " +
                         c.op.fault.brief(),
                     0});
        return v;
    }
    if (rep.heap.failed > 0) {
        if (r.rc != E_MEMORY_ALLOC) {
            uintptr_t site = 0;
            int64_t idx = 0, k = 0;
            for (auto &a : rep.heap.allocs) {
                k++;
                if (a.failedBy) {
                    site = a.site;
                    idx = k;
                    break;
                }
            }
            v.push_back({"O2-wrong-code",
                         "allocation #" + std::to_string(idx) + " of " +
                             std::to_string(rep.heap.allocCount) +
                             " failed (" + c.op.fault.brief() +
                             ") but the call returned " + h3ErrorName(r.rc) +
                             " instead of E_MEMORY_ALLOC",
                         site});
        }
    } else {
        if (!r.sameAs(ref))
            v.push_back({"O5-differs-from-default-allocator",
                         "no allocation failed, yet result " + r.brief() +
                             " differs from default-allocator result " +
                             ref.brief() + " (errno on entry " + std::to_string(entryErrnoFor(c.fillSeed)) + ", reference 0)" +
                             (c.retryAfter.kind != F_NONE
                                  ? " [the call was made on the same thread right after the same call had been refused memory under " +
                                        c.retryAfter.brief() + "]"
                                  : std::string()),
                         0});
    }
    heapVerdicts(rep, v);
    if (v.empty()) refBalanceVerdicts(ref, "O3-leak", "O4-bad-free", v);
    return v;
}

std::vector<Verdict> judgeC16(const Case &c, const Result &ref,
                              const ExecReport &rep) {
    (void)c;
    std::vector<Verdict> v;
    const Result &r = rep.res;
    // An execution in which an allocation was failed: the function is not specified to survive that (the
    // unchanged tree dereferences NULL, an assert-enabled build aborts), so a crash is outside the clause and
    // yields no verdict.  But a tree that does survive and REPORTS AN ERROR is bound by "when the function
    // reports an error nothing is left allocated"; and one that survives and reports success must deliver the
    // reference result.
    const bool faulted = rep.heap.failed > 0;
    if (faulted && r.status != CALL_RETURNED) return v;
    if (r.status == CALL_CRASHED) {
        v.push_back({"R1-crash",
                     "call crashed on the simulated heap (signal " +
                         std::to_string(r.sig) +
                         ") although it returns on the default allocator",
                     0});
        return v;
    }
    if (r.status == CALL_HUNG) {
        v.push_back({"R1-hang", "call did not return on the simulated heap", 0});
        return v;
    }
    if (r.leftoverOnError)
        v.push_back({"R2-leak-on-error",
                     std::string("function reported ") + h3ErrorName(r.rc) +
                         " but left blocks allocated",
                     0});
    if (!r.sameAs(ref) && !(faulted && r.rc != 0))
        v.push_back({"R5-differs-from-default-allocator",
                     "result " + r.brief() +
                         " differs from default-allocator result " + ref.brief(),
                     0});
    for (auto &hv : rep.heap.violations) {
        Verdict x;
        if (hv.kind == "leak") {
            if (r.rc != 0 && r.leftoverOnError) continue;  // already reported
            x.oracle = r.rc == 0 ? "R3-leak-after-destroy" : "R2-leak-on-error";
        } else if (hv.kind == "double-free" || hv.kind == "bad-free" ||
                   hv.kind == "foreign-free")
            x.oracle = "R4-" + hv.kind;
        else
            x.oracle = "R6-" + hv.kind;
        x.detail = hv.detail;
        x.site = hv.site;
        v.push_back(x);
    }
    if (!r.guardsOk)
        v.push_back({"R6-caller-buffer",
                     "guard bytes around a caller-owned buffer (or the const "
                     "input set) were modified",
                     0});
    if (v.empty()) refBalanceVerdicts(ref, ref.rc == 0 ? "R3-leak-after-destroy" : "R2-leak-on-error", "R4-bad-free", v);
    return v;
}

// -------------------------------------------------------- symbolisation ----
namespace {
std::vector<std::pair<uintptr_t, std::string>> g_syms;
}
void symLoad(const char *argv0) {
    std::string path = std::string(argv0) + ".syms";
    std::string txt;
    if (!readFile(path, txt)) return;
    size_t pos = 0;
    while (pos < txt.size()) {
        size_t e = txt.find('\n', pos);
        if (e == std::string::npos) e = txt.size();
        std::string line = txt.substr(pos, e - pos);
        pos = e + 1;
        // "0000000000401136 T name"
        char type = 0;
        unsigned long long a = 0;
        char name[256];
        if (sscanf(line.c_str(), "%llx %c %255s", &a, &type, name) == 3) {
            if (type == 'T' || type == 't' || type == 'W' || type == 'w')
                g_syms.emplace_back((uintptr_t)a, name);
        }
    }
    std::sort(g_syms.begin(), g_syms.end());
}
std::string symName(uintptr_t addr) {
    if (!addr) return "";
    if (g_syms.empty()) return "0x" + hex64(addr);
    auto it = std::upper_bound(
        g_syms.begin(), g_syms.end(), std::make_pair(addr, std::string("\x7f")));
    if (it == g_syms.begin()) return "0x" + hex64(addr);
    --it;
    char b[320];
    snprintf(b, sizeof b, "%s+0x%llx", it->second.c_str(),
             (unsigned long long)(addr - it->first));
    return b;
}

std::string siteSeqHash(const OpHeapCtx &h) {
    Chain c;
    for (auto &a : h.allocs) {
        c.add(a.site);
        c.add(a.failedBy);
    }
    return hex64(c.h);
}
