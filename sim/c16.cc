// c16.cc — C16, resource-history clauses only (DESIGN.md §4.3):
// destroyLinkedMultiPolygon releases everything; an error return leaves
// nothing allocated; no double/foreign free; no red-zone or poison damage; the
// returned structure does not depend on the allocator's legal behaviour.
// No allocation faults are injected here (the function is not specified to
// survive them).
#include "runner.h"
#include "ambient.h"

#include <algorithm>

namespace {
void linkedShape(const std::vector<uint8_t> &o, int64_t &polys, int64_t &loops,
                 int64_t &verts) {
    polys = loops = verts = 0;
    for (size_t i = 0; i + 8 <= o.size();) {
        uint64_t v;
        memcpy(&v, &o[i], 8);
        if (v == 0x504F4C59ULL) {
            polys++;
            i += 8;
        } else if (v == 0x4C4F4F50ULL) {
            loops++;
            i += 8;
        } else {
            verts++;
            i += 16;
        }
    }
}
}  // namespace

static bool stepC16(const Case &c, const Result &ref, RunStats &st,
                    Chain &chain, JP &viol, std::set<std::string> &probes) {
    ExecReport rep = simExec(c, true);
    st.execs++;
    st.bypassAllocs += rep.heap.bypassAllocs;
    chain.add(rep.res.digest());
    chain.add(rep.heap.log.h);
    for (auto &a : rep.heap.allocs) st.sitesReached.insert(symName(a.site));
    {
        // "scenario" here: distinct allocation/free history shape
        Chain sc;
        sc.add(rep.heap.allocCount);
        sc.add(rep.heap.frees);
        sc.add((uint64_t)rep.res.rc);
        sc.add(hashBytes(&c.knobs, sizeof(int) * 4));
        st.scenarios.insert(sc.h);
    }
    if (rep.res.status == CALL_RETURNED) {
        if (rep.res.rc == 0) {
            int64_t p, l, v;
            linkedShape(rep.res.out, p, l, v);
            if (p > 1) probes.insert("success.multi-polygon");
            if (l > p) probes.insert("success.with-holes");
            if (p == 0) probes.insert("success.empty");
            if (p > 16) probes.insert("success.>16-polygons");
            {
                // most loops in one polygon (1 outer + holes)
                int64_t cur = 0, best = 0;
                for (size_t i = 0; i + 8 <= rep.res.out.size();) {
                    uint64_t w;
                    memcpy(&w, &rep.res.out[i], 8);
                    if (w == 0x504F4C59ULL) {
                        cur = 0;
                        i += 8;
                    } else if (w == 0x4C4F4F50ULL) {
                        best = std::max(best, ++cur);
                        i += 8;
                    } else
                        i += 16;
                }
                if (best >= 4) probes.insert("success.polygon-with>=3-holes");
            }
            if (rep.heap.allocCount > 1000) probes.insert("success.>1000-allocations");
        } else {
            probes.insert(std::string("error-return:") + h3ErrorName(rep.res.rc));
            if (rep.heap.allocCount > 1)
                probes.insert(std::string("error-return-after-allocations:") +
                              h3ErrorName(rep.res.rc));
            if (c.op.tag.find("polar") != std::string::npos || c.op.tag.find("globe") != std::string::npos)
                probes.insert(std::string("error-return:") + h3ErrorName(rep.res.rc) +
                              ":footprint-wraps-pole-or-globe(no-outer-loop-exit)");
        }
    }
    std::vector<Verdict> vs = judgeC16(c, ref, rep);
    if (vs.empty()) return false;
    const Verdict &v = vs[0];
    viol = JVal::obj();
    viol->set("property", "C16");
    viol->set("class", v.oracle);
    viol->set("fn", FN_NAMES[c.op.fn]);
    viol->set("detail", v.detail);
    viol->set("site", symName(v.site));
    viol->set("case", c.toJson());
    return true;
}

JP runC16(uint64_t runSeed, int64_t runIdx, const TierCfg &cfg) {
    Rng rng(runSeed);
    Gen gen(rng);
    gen.boost = cfg.tier == "thorough" ? 1 : 0;
    RunStats st;
    Chain chain;
    std::set<std::string> probes;
    JP line = JVal::obj();
    line->set("run", runIdx);
    line->set("seed", hex64(runSeed));
    int maxCells = cfg.c16MaxCells;
    if (rng.chance(0.1)) maxCells *= 6;
    Op op;
    if (!gen.catalogueC16(runIdx, op)) op = gen.c16Op(maxCells);
    chain.add(op.hash());
    line->set("fn", FN_NAMES[op.fn]);
    line->set("tag", op.tag);
    line->set("op_brief", op.brief());
    line->set("n_cells", (int64_t)op.cells.size());
    JP violations = JVal::arr();
    Result ref;
    std::string why;
    ambientResetStreams();
    if (!attributable(op, ref, why)) {
        line->set("observation", why + ": " + op.brief());
        line->set("observation_op", op.toJson(false));
        line->set("hash", hex64(chain.h));
        line->set("execs", (int64_t)0);
        line->set("violations", violations);
        return line;
    }
    chain.add(ref.digest());
    line->set("ref", ref.brief());
    Case base;
    base.op = op;
    base.knobs = HeapKnobs::benign();
    base.fillSeed = rng.u64();
    JP viol;
    bool stop = false;
    for (int i = 0; i < 4 && !stop; i++) {
        Case c = base;
        if (i > 0) {
            c.knobs = HeapKnobs::draw(rng);
            // make sure each non-benign fill and both reuse policies occur
            if (i == 1) c.knobs.fill = 0, c.knobs.placement = 1;
            if (i == 2) c.knobs.fill = 2, c.knobs.placement = 2;
            if (i == 3) c.knobs.smallStack = 1;
            c.fillSeed = rng.u64();
        }
        if (stepC16(c, ref, st, chain, viol, probes)) {
            violations->push(viol);
            stop = true;
        }
    }
    // Allocation faults (sampled indices).  On the unchanged tree every such execution crashes and is ignored
    // (see judgeC16); a tree that handles the failure is held to the error-return clause.
    // Not in the sanitizer builds: there the NULL dereference of the unchanged tree is a fatal UBSan report that
    // cannot be contained, and a sanitizer report under a fault this function is not specified to survive would
    // say nothing about C16.
#ifndef SIM_DELEGATE_MALLOC
    {
        int64_t n = 0;
        {
            ExecReport rep0 = simExec(base, true);
            n = rep0.heap.allocCount;
        }
        std::set<int64_t> idx;
        int want = cfg.tier == "thorough" ? 36 : 14;
        for (int64_t i = 1; i <= 4 && i <= n; i++) idx.insert(i);
        for (int64_t i = n; i > n - 4 && i >= 1; i--) idx.insert(i);
        while ((int64_t)idx.size() < std::min<int64_t>(want, n)) idx.insert(rng.range(1, n));
        for (int64_t i : idx) {
            if (stop) break;
            Case c = base;
            c.knobs = HeapKnobs::draw(rng);
            c.knobs.capacity = 0;
            c.fillSeed = rng.u64();
            c.op.fault.kind = rng.chance(0.7) ? F1_NTH : F2_FROM_NTH;
            c.op.fault.n = i;
            ExecReport rep = simExec(c, true);
            st.execs++;
            chain.add(rep.res.digest());
            chain.add(rep.heap.log.h);
            for (int k = 1; k < F_KINDS; k++) st.fired[k] += rep.heap.fired[k];
            if (rep.heap.failed > 0) {
                st.faultedExecs++;
                if (rep.res.status != CALL_RETURNED)
                    probes.insert("fault.crash-or-abort(outside-the-clause)");
                else if (rep.res.rc != 0)
                    probes.insert(std::string("fault.error-return:") + h3ErrorName(rep.res.rc));
                else
                    probes.insert("fault.success-despite-failed-allocation");
            }
            std::vector<Verdict> vs = judgeC16(c, ref, rep);
            if (!vs.empty()) {
                const Verdict &v = vs[0];
                viol = JVal::obj();
                viol->set("property", "C16");
                viol->set("class", v.oracle);
                viol->set("fn", FN_NAMES[c.op.fn]);
                viol->set("detail", v.detail + " [under " + c.op.fault.brief() + "]");
                viol->set("site", symName(v.site));
                viol->set("case", c.toJson());
                violations->push(viol);
                stop = true;
            }
        }
    }
#endif
    line->set("hash", hex64(chain.h));
    st.toJson(*line);
    JP pa = JVal::arr();
    for (auto &p : probes) pa->push(JVal::str(p));
    line->set("probes", pa);
    line->set("violations", violations);
    if (cfg.wantSample) {
        Case c = base;
        if (c.op.cells.size() > 40) {
            c.op.cells.resize(40);
            c.op.tag += " (sample truncated to 40 cells)";
        }
        line->set("sample", c.toJson());
    }
    return line;
}

std::vector<Verdict> replayCaseC16(const Case &c, std::string &note) {
    Result ref;
    std::string why;
    std::vector<Verdict> none;
    ambientResetStreams();
    if (!attributable(c.op, ref, why)) {
        note = "operation not attributable: " + why;
        return none;
    }
    ExecReport rep = simExec(c, true);
    note = "result " + rep.res.brief() + ", " +
           std::to_string(rep.heap.allocCount) + " allocation(s), " +
           std::to_string(rep.heap.frees) + " free(s); reference " + ref.brief();
    return judgeC16(c, ref, rep);
}
