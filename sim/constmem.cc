// constmem.cc — see constmem.h
#include "constmem.h"

#include <signal.h>
#include <string.h>
#include <sys/mman.h>
#include <ucontext.h>
#include <unistd.h>

#include "contain.h"
#include "vsched.h"

namespace {
const size_t SLAB = (size_t)64 << 20;  // virtual, MAP_NORESERVE
const int N_TASK_SLABS = 24;           // task ids 0..23 (+1 for "no task": the sequential phase)
const int SHARED_SLAB = N_TASK_SLABS + 1;
const int OUT_SLAB0 = N_TASK_SLABS + 2;  // output slabs: one per task (+1), after the input slabs
const int N_SLABS = 2 * (N_TASK_SLABS + 1) + 1;
const size_t PAGE = 4096;

struct Slab {
    uint8_t *base = nullptr;
    size_t used = 0;       // bytes handed out since the last reset
    size_t sealedLen = 0;  // page-rounded length currently read-only (0 = writable)
};
Slab g_slab[N_SLABS];
uint8_t *g_lo = nullptr, *g_hi = nullptr;
int64_t g_sealedCalls = 0, g_trapped = 0;

// one store in flight between SIGSEGV and the single-step SIGTRAP (per thread)
struct Pending {
    bool active = false;
    int slab = 0;
    uintptr_t addr = 0;
    uint8_t *win = nullptr;
    size_t winLen = 0;
    uint8_t old[64];
};
thread_local Pending tl_pend;
const int MAX_W = 48;
thread_local ConstWrite tl_w[MAX_W];
thread_local int tl_nw = 0;

int slabOfTask() {
    int t = schedCurrentTask();
    if (t < 0) return 0;
    if (t >= N_TASK_SLABS) return -1;
    return t + 1;
}

size_t roundPage(size_t n) { return (n + PAGE - 1) & ~(PAGE - 1); }

bool segvHook(void *addr, void *ucv) {
    uint8_t *a = (uint8_t *)addr;
    if (!g_lo || a < g_lo || a >= g_hi) return false;
    int si = (int)((size_t)(a - g_lo) / SLAB);
    Slab &s = g_slab[si];
    if (!s.sealedLen || (size_t)(a - s.base) >= s.sealedLen) return false;  // not a store to sealed input
    if (tl_pend.active) return false;                                       // cannot happen: one store at a time
#if defined(__x86_64__)
    Pending &p = tl_pend;
    p.active = true;
    p.slab = si;
    p.addr = (uintptr_t)a;
    uint8_t *w = (uint8_t *)((uintptr_t)a & ~(uintptr_t)31);
    if (w < s.base) w = s.base;
    size_t len = 64;
    if (w + len > s.base + s.sealedLen) len = (size_t)(s.base + s.sealedLen - w);
    p.win = w;
    p.winLen = len;
    memcpy(p.old, w, len);
    mprotect(s.base, s.sealedLen, PROT_READ | PROT_WRITE);
    ucontext_t *uc = (ucontext_t *)ucv;
    uc->uc_mcontext.gregs[REG_EFL] |= 0x100;  // single-step: trap after this one instruction
    return true;
#else
    (void)ucv;
    return false;
#endif
}

bool trapHook(void *ucv) {
#if defined(__x86_64__)
    Pending &p = tl_pend;
    if (!p.active) return false;
    ucontext_t *uc = (ucontext_t *)ucv;
    uc->uc_mcontext.gregs[REG_EFL] &= ~(greg_t)0x100;
    Slab &s = g_slab[p.slab];
    bool changed = memcmp(p.old, p.win, p.winLen) != 0;
    if (s.sealedLen) mprotect(s.base, s.sealedLen, PROT_READ);
    g_trapped++;
    if (tl_nw < MAX_W) {
        ConstWrite &w = tl_w[tl_nw++];
        w.addr = p.addr;
        w.offset = (uint64_t)((uint8_t *)p.addr - s.base);
        w.task = schedCurrentTask();
        w.step = schedGlobalStep();
        w.changed = changed;
        w.shared = p.slab == SHARED_SLAB;
    } else if (changed) {
        tl_w[MAX_W - 1].changed = true;
    }
    p.active = false;
    return true;
#else
    (void)ucv;
    return false;
#endif
}

void *slabAlloc(Slab &s, size_t bytes) {
    if (!s.base || s.sealedLen) return nullptr;
    size_t at = (s.used + 15) & ~(size_t)15;
    if (at + bytes + 16 > SLAB) return nullptr;
    s.used = at + bytes;
    memset(s.base + at, 0, bytes);
    return s.base + at;
}
void slabSeal(Slab &s) {
    if (!s.base || !s.used) return;
    s.sealedLen = roundPage(s.used);
    mprotect(s.base, s.sealedLen, PROT_READ);
}
void slabUnseal(Slab &s) {
    if (s.base && s.sealedLen) mprotect(s.base, s.sealedLen, PROT_READ | PROT_WRITE);
    s.sealedLen = 0;
}
}  // namespace

void constMemInit() {
    if (g_lo) return;
#if defined(__x86_64__)
    void *m = mmap(nullptr, SLAB * N_SLABS, PROT_READ | PROT_WRITE, MAP_PRIVATE | MAP_ANONYMOUS | MAP_NORESERVE, -1, 0);
    if (m == MAP_FAILED) return;
    g_lo = (uint8_t *)m;
    g_hi = g_lo + SLAB * N_SLABS;
    for (int i = 0; i < N_SLABS; i++) g_slab[i].base = g_lo + SLAB * (size_t)i;
    containSegvHookConst = segvHook;
    containTrapHook = trapHook;
#endif
}
bool constMemAvailable() { return g_lo != nullptr; }

void *constAlloc(size_t bytes) {
    int si = slabOfTask();
    if (si < 0 || !g_lo) return nullptr;
    return slabAlloc(g_slab[si], bytes);
}
void constSealOp() {
    int si = slabOfTask();
    if (si < 0 || !g_lo) return;
    g_sealedCalls++;
    slabSeal(g_slab[si]);
}
void constUnsealOp() {
    int si = slabOfTask();
    if (si < 0 || !g_lo) return;
    slabUnseal(g_slab[si]);
    // release what the operation touched so that resident memory stays small
    if (g_slab[si].used > ((size_t)1 << 20)) madvise(g_slab[si].base, roundPage(g_slab[si].used), MADV_DONTNEED);
    g_slab[si].used = 0;
}
std::vector<ConstWrite> constTakeWrites() {
    std::vector<ConstWrite> v(tl_w, tl_w + tl_nw);
    tl_nw = 0;
    return v;
}

void *constSharedAlloc(size_t bytes) { return g_lo ? slabAlloc(g_slab[SHARED_SLAB], bytes) : nullptr; }
void constSharedSeal() {
    if (g_lo) slabSeal(g_slab[SHARED_SLAB]);
}
void constSharedUnseal() {
    if (g_lo) slabUnseal(g_slab[SHARED_SLAB]);
}
void constSharedReset() {
    if (!g_lo) return;
    slabUnseal(g_slab[SHARED_SLAB]);
    if (g_slab[SHARED_SLAB].used > ((size_t)1 << 20))
        madvise(g_slab[SHARED_SLAB].base, roundPage(g_slab[SHARED_SLAB].used), MADV_DONTNEED);
    g_slab[SHARED_SLAB].used = 0;
}
void *outAlloc(size_t bytes, size_t *slack) {
    int si = slabOfTask();
    if (si < 0 || !g_lo) return nullptr;
    Slab &s = g_slab[OUT_SLAB0 + si];
    size_t need = (bytes + 15) & ~(size_t)15;
    size_t start = roundPage(s.used);               // page aligned
    size_t end = start + roundPage(need ? need : 16);  // boundary B: the fence page starts here
    if (end + PAGE > SLAB) return nullptr;
    uint8_t *p = s.base + end - need;
    if (slack) *slack = need - bytes;
    mprotect(s.base + end, PAGE, PROT_NONE);
    s.used = end + PAGE;
    s.sealedLen = 0;
    return p;
}
void outReleaseOp() {
    int si = slabOfTask();
    if (si < 0 || !g_lo) return;
    Slab &s = g_slab[OUT_SLAB0 + si];
    if (!s.used) return;
    mprotect(s.base, s.used, PROT_READ | PROT_WRITE);
    if (s.used > ((size_t)1 << 20)) madvise(s.base, s.used, MADV_DONTNEED);
    s.used = 0;
}
int64_t constSealedCalls() { return g_sealedCalls; }
int64_t constTrappedStores() { return g_trapped; }
