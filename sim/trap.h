// trap.h — write-trap on library-owned static storage (cov build only)
#pragma once
#include <string>
#include <vector>

#include "util.h"

struct TrapRec {
    uintptr_t addr = 0;
    int task = -1;
    int64_t step = 0;
};
void trapInit(const char *argv0);
void trapArm();      // make library static storage read-only
void trapDisarm();
bool trapArmed();
// runs f with the protected pages writable (no trap is recorded for what f stores) and puts the protection back
void trapWithPagesWritable(void (*f)());
void trapRearm();    // after a recorded trap re-opened the pages
std::vector<TrapRec> trapTake();
std::string trapSymbol(uintptr_t addr);
size_t trapProtectedBytes();
std::vector<std::string> trapProtectedSymbols();
