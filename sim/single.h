// single.h — one simulated client: execute an operation on the simulated heap
// under a fault plan, and judge it with the oracles O1..O6 of DESIGN.md §4.1.
#pragma once
#include <map>
#include <set>

#include "op.h"

struct ExecReport {
    Result res;
    OpHeapCtx heap;  // state after the end-of-operation audit
};

struct Case {  // everything needed to re-execute one simulated call
    Op op;     // includes the fault plan
    HeapKnobs knobs;
    uint64_t fillSeed = 0;
    // "the call failed, the caller retries": if set, the same operation is first executed under THIS fault plan on the
    // same (freshly created) thread, its outcome is discarded, and then the operation itself is executed and judged
    FaultPlan retryAfter;
    JP toJson() const;
    static Case fromJson(const JVal &j);
};

struct Verdict {
    std::string oracle;  // e.g. "O2-wrong-code"
    std::string detail;
    uintptr_t site = 0;
};

extern double g_wallLimit;  // watchdog per call (s); verdicts are re-confirmed

ExecReport simExec(const Case &c, bool linkedAuditHook = false);   // on a thread created for it

// Oracles.  ref = result of the same op on the REF copy (default allocator).
std::vector<Verdict> judgeC17(const Case &c, const Result &ref,
                              const ExecReport &rep);
std::vector<Verdict> judgeC16(const Case &c, const Result &ref,
                              const ExecReport &rep);

// Attribution pre-run (§2.9): op executed twice on REF; returns false and a
// reason if the operation misbehaves without fault or simulated heap.
bool attributable(const Op &op, Result &ref, std::string &why);

// symbolisation of allocation sites: "function+0x1a"
void symLoad(const char *argv0);
std::string symName(uintptr_t addr);

std::string siteSeqHash(const OpHeapCtx &h);
