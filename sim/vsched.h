// sched.h — seeded scheduler over real, parked pthreads (DESIGN.md §2.4) and
// the compiler-inserted preemption points (trace-pc-guard callbacks).
#pragma once
#include <pthread.h>
#include <semaphore.h>

#include <functional>
#include <string>
#include <vector>

#include "util.h"

enum SchedPolicy { POL_UNIFORM = 0, POL_ROUNDROBIN = 1, POL_STARVE = 2, POL_PCT = 3, POL_COUNT = 4 };
extern const char *POLICY_NAMES[POL_COUNT];

struct SwitchRec {
    int64_t step;  // global scheduling-point counter at which the switch happens
    int next;      // task that runs next
};

struct SchedConfig {
    int policy = POL_UNIFORM;
    int64_t quantumMean = 200;
    int64_t maxSwitches = 4000;  // afterwards tasks run undisturbed
    int pctDepth = 3;
    int64_t pctHorizon = 100000;  // estimated total steps (from the solo pre-run)
    uint64_t seed = 1;
    bool forced = false;               // replay: follow `schedule` exactly
    std::vector<SwitchRec> schedule;   // forced schedule (replay / minimise)
};

struct SchedStats {
    int64_t steps = 0, switches = 0, guardEvents = 0, allocEvents = 0;
    uint64_t signature = 0;            // hash of the (from, guard, to) sequence
    std::vector<SwitchRec> recorded;
    std::vector<uint64_t> switchPairs;  // (preempted-at guard, resumed-at guard)
};

// A task body is run on its own pthread; it must call schedOpBoundary()
// between operations. Returns when every task has finished.
typedef std::function<void(int task)> TaskBody;
SchedStats schedRun(int nTasks, const SchedConfig &cfg, const TaskBody &body);

// Solo mode: count scheduling points on the calling thread without switching
// (sequential pre-run). Returns steps since the matching begin.
void schedSoloBegin();
int64_t schedSoloEnd();
// solo steps at which the library came back from a non-re-entrant libc facility (since schedSoloBegin)
std::vector<int64_t> schedSoloPreferredSteps();

// f on a fresh thread (pristine thread-local storage), joined before returning
void schedRunOnFreshThread(const std::function<void()> &f, size_t stackBytes = 0);  // 0 = 8 MiB

// per-operation deterministic step budget; exceeding it aborts the contained
// call as CALL_HUNG. 0 disables.
void schedSetOpBudget(int64_t budget);
int64_t schedOpSteps();
void schedOpBoundary();
int schedCurrentTask();   // -1 outside tasks
int64_t schedGlobalStep();

// guard coverage
int guardCount();
int guardsCovered();
void guardCoverageReset();
std::vector<std::string> guardFunctionsNeverEntered();
int guardFunctionsTotal();
std::vector<uint32_t> guardCoveredIds();
