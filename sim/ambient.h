// ambient.h — process/thread state that is neither library-owned memory nor a
// caller buffer but that a library call can still change behind the caller's
// back: the floating-point rounding mode (per thread) and the process locale.
// "The library keeps no mutable global state" (C18) includes not leaving these
// changed; the simulator selects a non-default locale at start so that a call
// that pins "C" and restores it badly becomes visible.
#pragma once
#include <string>

struct Ambient {
    int round = 0;
    unsigned fpcw = 0;       // control bits of MXCSR (exception masks, rounding, FTZ, DAZ) << 16 | x87 control word
    unsigned long sig = 0;   // hash of the thread's signal mask and of the dispositions of the common signals
    std::string locale;
    bool operator==(const Ambient &o) const {
        return round == o.round && fpcw == o.fpcw && sig == o.sig && locale == o.locale;
    }
    std::string describe() const;
};
// puts the calling thread's floating-point control state and signal mask/dispositions back to a
void ambientRestoreThread(const Ambient &a);
void ambientInit();
void ambientFixDefault();  // after the simulator installed its signal handlers: this is the reference state
Ambient ambientGet(bool withLocale);
Ambient ambientDefault();
void ambientRestore(bool withLocale);

// ---- ambient-source shims --------------------------------------------------
// The library's (currently non-existent) calls to clocks, random sources, the
// environment, sleeping and blocking locks are renamed to h3amb_* at link time
// (vbuild.py), so that even a changed tree reads a *simulated* clock and a
// seeded random source, never really sleeps, and cannot block the one running
// task on a lock held by a parked task.  Calls are counted for the evidence.
struct AmbientReads {
    long clock = 0, random = 0, env = 0, sleep = 0, lock = 0, lockContended = 0;
    long nonReentrant = 0;  // strtok, localtime, gmtime, asctime, ctime, strerror, setlocale
    long hiddenStatic = 0;  // of those, the ones the C library documents as MT-Unsafe (all but strerror)
    const char *lastHiddenStatic = "";
    long total() const { return clock + random + env + sleep + lock + nonReentrant; }
};
void ambientResetPerRun();
// simulated clock and random stream back to their start (the call counters keep counting): done after input generation,
// so that what an operation reads from them depends on the recorded case only, not on what the generator consumed
void ambientResetStreams();
AmbientReads ambientReads();
// set by the scheduler: give up the CPU because a lock is held by a parked task
extern void (*ambientYieldHook)(void);
// set by the scheduler: a preferred preemption point (the library just returned from a libc facility that
// keeps hidden static state)
extern void (*ambientPreferHook)(void);
