// ambient.h — process/thread state that is neither library-owned memory nor a
// caller buffer but that a library call can still change behind the caller's
// back: the floating-point rounding mode (per thread) and the process locale.
// "The library keeps no mutable global state" (C18) includes not leaving these
// changed; the simulator selects a non-default locale at start so that a call
// that pins "C" and restores it badly becomes visible.
#pragma once
#include <string>

struct Ambient {
    int round = 0;
    std::string locale;
    bool operator==(const Ambient &o) const { return round == o.round && locale == o.locale; }
    std::string describe() const;
};
void ambientInit();
Ambient ambientGet(bool withLocale);
Ambient ambientDefault();
void ambientRestore(bool withLocale);
