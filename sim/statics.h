// statics.h — the library's writable static storage, fenced onto its own pages
// by the build (vbuild.py: every allocated writable section of libsim.o is
// renamed to h3wdata/h3wbss and bracketed by page-aligned pad objects).
// Used for (a) the write-trap of C18 and (b) restoring a pristine image before
// every run, so that a tree that keeps state across calls cannot make a run
// depend on which runs the same worker process executed before it.
#pragma once
#include <cstddef>
#include <cstdint>

struct StaticRegion {
    uintptr_t lo, hi;  // page aligned, pads included
};
bool staticsAvailable();
const StaticRegion *staticRegions();  // 4 entries: data, bss of the simulated copy; data, bss of the reference copy
void staticsInit();                   // validates the layout, takes the pristine snapshot
void staticsRestore();                // pages must be writable when called
void staticsRestoreRef();             // the reference copy's regions only
size_t staticsLibraryBytes();         // pad pages excluded
