// util.h — PRNG, hashing, minimal JSON writer/parser shared by the simulator.
// Nothing in here reads a clock or any other ambient source of nondeterminism.
#pragma once
#include <cmath>
#include <cstdint>
#include <cstdio>
#include <cstdlib>
#include <cstring>
#include <map>
#include <memory>
#include <string>
#include <vector>

// ---------------------------------------------------------------- PRNG ----
static inline uint64_t splitmix64(uint64_t &x) {
    uint64_t z = (x += 0x9e3779b97f4a7c15ULL);
    z = (z ^ (z >> 30)) * 0xbf58476d1ce4e5b9ULL;
    z = (z ^ (z >> 27)) * 0x94d049bb133111ebULL;
    return z ^ (z >> 31);
}
static inline uint64_t mix2(uint64_t a, uint64_t b) {
    uint64_t s = a ^ (b * 0x9e3779b97f4a7c15ULL + 0x632be59bd9b4e019ULL);
    splitmix64(s);
    return splitmix64(s);
}

struct Rng {
    uint64_t s[4];
    uint64_t draws = 0;
    explicit Rng(uint64_t seed = 1) { reseed(seed); }
    void reseed(uint64_t seed) {
        uint64_t x = seed;
        for (int i = 0; i < 4; i++) s[i] = splitmix64(x);
        draws = 0;
    }
    static inline uint64_t rotl(uint64_t x, int k) {
        return (x << k) | (x >> (64 - k));
    }
    uint64_t u64() {
        draws++;
        const uint64_t r = rotl(s[1] * 5, 7) * 9;
        const uint64_t t = s[1] << 17;
        s[2] ^= s[0];
        s[3] ^= s[1];
        s[1] ^= s[2];
        s[0] ^= s[3];
        s[2] ^= t;
        s[3] = rotl(s[3], 45);
        return r;
    }
    // uniform in [0,n), n>0
    uint64_t below(uint64_t n) { return n ? u64() % n : 0; }
    // uniform in [a,b]
    int64_t range(int64_t a, int64_t b) {
        if (b <= a) return a;
        return a + (int64_t)below((uint64_t)(b - a) + 1);
    }
    double unit() { return (u64() >> 11) * (1.0 / 9007199254740992.0); }
    double uniform(double a, double b) { return a + (b - a) * unit(); }
    bool chance(double p) { return unit() < p; }
    template <class T>
    const T &pick(const std::vector<T> &v) {
        return v[below(v.size())];
    }
    template <class T>
    void shuffle(std::vector<T> &v) {
        for (size_t i = v.size(); i > 1; i--) {
            size_t j = below(i);
            std::swap(v[i - 1], v[j]);
        }
    }
};

// ------------------------------------------------------------- hashing ----
struct Chain {
    uint64_t h = 0xcbf29ce484222325ULL;
    uint64_t n = 0;
    inline void add(uint64_t v) {
        h = (h ^ v) * 0x100000001b3ULL;
        h ^= h >> 29;
        n++;
    }
    inline void addBytes(const void *p, size_t len) {
        const uint8_t *b = (const uint8_t *)p;
        uint64_t acc = 0xcbf29ce484222325ULL;
        for (size_t i = 0; i < len; i++) acc = (acc ^ b[i]) * 0x100000001b3ULL;
        add(acc ^ len);
    }
};
static inline uint64_t hashBytes(const void *p, size_t len) {
    Chain c;
    c.addBytes(p, len);
    return c.h;
}
static inline std::string hex64(uint64_t v) {
    char b[24];
    snprintf(b, sizeof b, "%016llx", (unsigned long long)v);
    return b;
}

// ---------------------------------------------------------------- JSON ----
struct JVal;
typedef std::shared_ptr<JVal> JP;
struct JVal {
    enum T { NUL, BOOL, NUM, STR, ARR, OBJ } t = NUL;
    bool b = false;
    double num = 0;
    bool isInt = false;
    int64_t inum = 0;
    uint64_t unum = 0;
    std::string s;
    std::vector<JP> a;
    std::vector<std::pair<std::string, JP>> o;

    static JP mk(T t) {
        JP p = std::make_shared<JVal>();
        p->t = t;
        return p;
    }
    static JP null() { return mk(NUL); }
    static JP boolean(bool v) {
        JP p = mk(BOOL);
        p->b = v;
        return p;
    }
    static JP integer(int64_t v) {
        JP p = mk(NUM);
        p->isInt = true;
        p->inum = v;
        p->unum = (uint64_t)v;
        p->num = (double)v;
        return p;
    }
    static JP number(double v) {
        if (std::isnan(v)) return str("nan");
        if (std::isinf(v)) return str(v > 0 ? "inf" : "-inf");
        JP p = mk(NUM);
        p->num = v;
        return p;
    }
    static JP str(const std::string &v) {
        JP p = mk(STR);
        p->s = v;
        return p;
    }
    static JP arr() { return mk(ARR); }
    static JP obj() { return mk(OBJ); }

    JVal &set(const std::string &k, JP v) {
        for (auto &kv : o)
            if (kv.first == k) {
                kv.second = v;
                return *this;
            }
        o.emplace_back(k, v);
        return *this;
    }
    JVal &set(const std::string &k, int64_t v) { return set(k, integer(v)); }
    JVal &set(const std::string &k, int v) { return set(k, integer(v)); }
    JVal &set(const std::string &k, uint64_t v) {
        return set(k, integer((int64_t)v));
    }
    JVal &set(const std::string &k, const std::string &v) {
        return set(k, str(v));
    }
    JVal &set(const std::string &k, const char *v) { return set(k, str(v)); }
    JVal &setd(const std::string &k, double v) { return set(k, number(v)); }
    JVal &setb(const std::string &k, bool v) { return set(k, boolean(v)); }
    void push(JP v) { a.push_back(v); }

    JP get(const std::string &k) const {
        for (auto &kv : o)
            if (kv.first == k) return kv.second;
        return nullptr;
    }
    bool has(const std::string &k) const { return get(k) != nullptr; }
    int64_t geti(const std::string &k, int64_t d = 0) const {
        JP p = get(k);
        if (!p || p->t != NUM) return d;
        return p->isInt ? p->inum : (int64_t)p->num;
    }
    std::string gets(const std::string &k, const std::string &d = "") const {
        JP p = get(k);
        if (!p || p->t != STR) return d;
        return p->s;
    }
    bool getb(const std::string &k, bool d = false) const {
        JP p = get(k);
        if (!p || p->t != BOOL) return d;
        return p->b;
    }
    double asDouble() const {
        if (t == STR) {
            if (s == "nan") return NAN;
            if (s == "inf") return INFINITY;
            if (s == "-inf") return -INFINITY;
            return strtod(s.c_str(), nullptr);
        }
        return isInt ? (double)inum : num;
    }
    double getd(const std::string &k, double d = 0) const {
        JP p = get(k);
        if (!p) return d;
        return p->asDouble();
    }

    static void esc(std::string &out, const std::string &s) {
        out += '"';
        for (unsigned char c : s) {
            if (c == '"')
                out += "\\\"";
            else if (c == '\\')
                out += "\\\\";
            else if (c == '\n')
                out += "\\n";
            else if (c == '\t')
                out += "\\t";
            else if (c < 0x20 || c >= 0x7f) {
                char b[8];
                snprintf(b, sizeof b, "\\u%04x", c);
                out += b;
            } else
                out += (char)c;
        }
        out += '"';
    }
    void dump(std::string &out) const {
        switch (t) {
            case NUL:
                out += "null";
                break;
            case BOOL:
                out += b ? "true" : "false";
                break;
            case NUM: {
                char buf[40];
                if (isInt)
                    snprintf(buf, sizeof buf, "%lld", (long long)inum);
                else
                    snprintf(buf, sizeof buf, "%.17g", num);
                out += buf;
                break;
            }
            case STR:
                esc(out, s);
                break;
            case ARR: {
                out += '[';
                bool first = true;
                for (auto &e : a) {
                    if (!first) out += ',';
                    first = false;
                    e->dump(out);
                }
                out += ']';
                break;
            }
            case OBJ: {
                out += '{';
                bool first = true;
                for (auto &kv : o) {
                    if (!first) out += ',';
                    first = false;
                    esc(out, kv.first);
                    out += ':';
                    kv.second->dump(out);
                }
                out += '}';
                break;
            }
        }
    }
    std::string dump() const {
        std::string s;
        dump(s);
        return s;
    }
};

struct JParser {
    const char *p, *end;
    bool ok = true;
    explicit JParser(const std::string &s)
        : p(s.data()), end(s.data() + s.size()) {}
    void ws() {
        while (p < end && (*p == ' ' || *p == '\n' || *p == '\t' || *p == '\r'))
            p++;
    }
    JP parse() {
        ws();
        if (p >= end) {
            ok = false;
            return JVal::null();
        }
        char c = *p;
        if (c == '{') {
            p++;
            JP o = JVal::obj();
            ws();
            if (p < end && *p == '}') {
                p++;
                return o;
            }
            while (ok) {
                ws();
                JP k = parse();
                if (!ok || k->t != JVal::STR) {
                    ok = false;
                    break;
                }
                ws();
                if (p >= end || *p != ':') {
                    ok = false;
                    break;
                }
                p++;
                JP v = parse();
                o->o.emplace_back(k->s, v);
                ws();
                if (p < end && *p == ',') {
                    p++;
                    continue;
                }
                if (p < end && *p == '}') {
                    p++;
                    break;
                }
                ok = false;
            }
            return o;
        }
        if (c == '[') {
            p++;
            JP a = JVal::arr();
            ws();
            if (p < end && *p == ']') {
                p++;
                return a;
            }
            while (ok) {
                a->a.push_back(parse());
                ws();
                if (p < end && *p == ',') {
                    p++;
                    continue;
                }
                if (p < end && *p == ']') {
                    p++;
                    break;
                }
                ok = false;
            }
            return a;
        }
        if (c == '"') {
            p++;
            JP s = JVal::mk(JVal::STR);
            while (p < end && *p != '"') {
                if (*p == '\\' && p + 1 < end) {
                    p++;
                    char e = *p++;
                    switch (e) {
                        case 'n':
                            s->s += '\n';
                            break;
                        case 't':
                            s->s += '\t';
                            break;
                        case 'r':
                            s->s += '\r';
                            break;
                        case 'u': {
                            unsigned v = 0;
                            for (int i = 0; i < 4 && p < end; i++) {
                                char h = *p++;
                                v = v * 16 + (h <= '9'   ? h - '0'
                                              : h <= 'F' ? h - 'A' + 10
                                                         : h - 'a' + 10);
                            }
                            s->s += (char)(v & 0xff);
                            break;
                        }
                        default:
                            s->s += e;
                    }
                } else
                    s->s += *p++;
            }
            if (p < end) p++;
            return s;
        }
        if (!strncmp(p, "true", 4)) {
            p += 4;
            return JVal::boolean(true);
        }
        if (!strncmp(p, "false", 5)) {
            p += 5;
            return JVal::boolean(false);
        }
        if (!strncmp(p, "null", 4)) {
            p += 4;
            return JVal::null();
        }
        // number
        const char *st = p;
        bool isInt = true;
        if (p < end && (*p == '-' || *p == '+')) p++;
        while (p < end && ((*p >= '0' && *p <= '9') || *p == '.' || *p == 'e' ||
                           *p == 'E' || *p == '-' || *p == '+')) {
            if (*p == '.' || *p == 'e' || *p == 'E') isInt = false;
            p++;
        }
        if (p == st) {
            ok = false;
            return JVal::null();
        }
        std::string tok(st, p);
        JP n = JVal::mk(JVal::NUM);
        n->num = strtod(tok.c_str(), nullptr);
        if (isInt) {
            n->isInt = true;
            n->inum = strtoll(tok.c_str(), nullptr, 10);
        }
        return n;
    }
};

static inline bool readFile(const std::string &path, std::string &out) {
    FILE *f = fopen(path.c_str(), "rb");
    if (!f) return false;
    char buf[65536];
    size_t n;
    out.clear();
    while ((n = fread(buf, 1, sizeof buf, f)) > 0) out.append(buf, n);
    fclose(f);
    return true;
}
static inline bool writeFile(const std::string &path, const std::string &s) {
    FILE *f = fopen(path.c_str(), "wb");
    if (!f) return false;
    fwrite(s.data(), 1, s.size(), f);
    fclose(f);
    return true;
}
