// minimize.cc — greedy / ddmin shrinking of a recorded single-client case
// (C16, C17) restricted to the original violation class (same oracle id, same
// function).  Bounded number of re-executions.  DESIGN.md §2.7.
#include <time.h>

#include <algorithm>

#include "runner.h"

namespace {
struct Shrinker {
    std::string prop, cls;
    int budget = 600;
    int execs = 0;

    time_t tStart = time(nullptr);
    std::vector<Verdict> verdicts(const Case &c, std::string &note) {
        execs++;
        // wall-clock only bounds how far the replay file is shrunk, never a verdict
        if (time(nullptr) - tStart > 45) budget = 0;
        return prop == "C16" ? replayCaseC16(c, note) : replayCaseC17(c, note);
    }
    bool same(const Case &c, std::string *detail = nullptr) {
        std::string note;
        for (auto &v : verdicts(c, note))
            if (v.oracle == cls) {
                if (detail) *detail = v.detail;
                return true;
            }
        return false;
    }
    // Does the case still violate?  For indexed plans the index is re-searched
    // because removing input changes the number of allocations.
    bool reproduces(Case &c) {
        if (execs >= budget) return false;
        if (same(c)) return true;
        int k = c.op.fault.kind;
        if (k == F1_NTH || k == F2_FROM_NTH || k == F5_NTH_OF_KIND) {
            Case probe = c;
            probe.op.fault = FaultPlan();
            ExecReport rep = simExec(probe);
            int64_t n = rep.heap.allocCount;
            for (int64_t i = 1; i <= n && i <= 64 && execs < budget; i++) {
                if (i == c.op.fault.n) continue;
                Case t = c;
                t.op.fault.n = i;
                if (same(t)) {
                    c = t;
                    return true;
                }
            }
        }
        return false;
    }

    template <class T>
    void shrinkList(Case &c, std::vector<T> Op::*field, size_t minKeep) {
        std::vector<T> &v = c.op.*field;
        size_t chunk = std::max<size_t>(1, v.size() / 2);
        while (chunk >= 1 && execs < budget) {
            bool any = false;
            for (size_t start = 0; start < (c.op.*field).size() && execs < budget;) {
                std::vector<T> &cur = c.op.*field;
                if (cur.size() <= minKeep) break;
                size_t len = std::min(chunk, cur.size() - start);
                if (cur.size() - len < minKeep) {
                    start += chunk;
                    continue;
                }
                Case t = c;
                std::vector<T> &tv = t.op.*field;
                tv.erase(tv.begin() + start, tv.begin() + start + len);
                if (reproduces(t)) {
                    c = t;
                    any = true;
                } else {
                    start += chunk;
                }
            }
            if (!any || chunk == 1) chunk /= 2;
        }
    }

    void run(Case &c) {
        // 1. simplest heap behaviour
        {
            Case t = c;
            t.knobs = HeapKnobs::benign();
            if (reproduces(t)) c = t;
        }
        // 2. single-entry fault plan
        if (c.op.fault.kind != F_NONE && c.op.fault.kind != F1_NTH) {
            Case probe = c;
            probe.op.fault = FaultPlan();
            ExecReport rep = simExec(probe);
            for (int64_t i = 1; i <= rep.heap.allocCount && i <= 200 && execs < budget; i++) {
                Case t = c;
                t.op.fault = FaultPlan();
                t.op.fault.kind = F1_NTH;
                t.op.fault.n = i;
                if (same(t)) {
                    c = t;
                    break;
                }
            }
        }
        // 3. no fault at all?
        if (c.op.fault.kind != F_NONE) {
            Case t = c;
            t.op.fault = FaultPlan();
            if (same(t)) c = t;
        }
        // 4. structural shrinking of the arguments
        bool setOp = c.op.fn == FN_compactCells ||
                     c.op.fn == FN_cellsToLinkedMultiPolygon;
        if (setOp) shrinkList<uint64_t>(c, &Op::cells, 0);
        if (!c.op.loops.empty()) {
            // drop holes
            for (size_t h = c.op.loops.size(); h > 1 && execs < budget; h--) {
                Case t = c;
                t.op.loops.erase(t.op.loops.begin() + (h - 1));
                if (reproduces(t)) c = t;
            }
            // drop vertices
            for (size_t l = 0; l < c.op.loops.size(); l++) {
                for (size_t i = c.op.loops[l].size(); i > 0 && execs < budget; i--) {
                    if (c.op.loops[l].size() <= 3) break;
                    Case t = c;
                    t.op.loops[l].erase(t.op.loops[l].begin() + (i - 1));
                    if (reproduces(t)) c = t;
                }
            }
        }
        // 5. smaller k / coarser resolution / smaller capacity
        if (c.op.fn == FN_gridDisk || c.op.fn == FN_gridDiskDistances) {
            while (!c.op.ints.empty() && c.op.ints[0] > 0 && execs < budget) {
                Case t = c;
                t.op.ints[0]--;
                if (reproduces(t))
                    c = t;
                else
                    break;
            }
        }
        if (c.op.fn == FN_polygonToCells ||
            c.op.fn == FN_polygonToCellsExperimental ||
            c.op.fn == FN_maxPolygonToCellsSizeExperimental) {
            while (!c.op.ints.empty() && c.op.ints[0] > 0 && execs < budget) {
                Case t = c;
                t.op.ints[0]--;
                if (reproduces(t))
                    c = t;
                else
                    break;
            }
        }
        // 6. knobs once more (shrinking may have made benign sufficient)
        {
            Case t = c;
            t.knobs = HeapKnobs::benign();
            if (reproduces(t)) c = t;
        }
    }
};
}  // namespace

int minimizeSingle(const std::string &in, const std::string &out) {
    std::string txt;
    if (!readFile(in, txt)) {
        fprintf(stderr, "cannot read %s\n", in.c_str());
        return 2;
    }
    JParser jp(txt);
    JP f = jp.parse();
    if (!jp.ok || !f->get("case")) {
        fprintf(stderr, "bad replay file %s\n", in.c_str());
        return 2;
    }
    Shrinker s;
    s.prop = f->gets("property");
    s.cls = f->gets("class");
    Case c = Case::fromJson(*f->get("case"));
    Case orig = c;
    if (!s.same(c)) {
        fprintf(stderr, "minimize: original case does not reproduce class %s\n",
                s.cls.c_str());
        return 2;
    }
    s.run(c);
    std::string detail;
    if (!s.same(c, &detail)) {
        c = orig;
        s.same(c, &detail);
    }
    JP o = JVal::obj();
    for (auto &kv : f->o)
        if (kv.first != "case" && kv.first != "detail" && kv.first != "minimised")
            o->set(kv.first, kv.second);
    o->set("detail", detail);
    o->setb("minimised", true);
    o->set("minimise_executions", (int64_t)s.execs);
    JP sz = JVal::obj();
    sz->set("cells_before", (int64_t)orig.op.cells.size());
    sz->set("cells_after", (int64_t)c.op.cells.size());
    int64_t vb = 0, va = 0;
    for (auto &l : orig.op.loops) vb += (int64_t)l.size();
    for (auto &l : c.op.loops) va += (int64_t)l.size();
    sz->set("polygon_vertices_before", vb);
    sz->set("polygon_vertices_after", va);
    sz->set("fault_before", orig.op.fault.brief());
    sz->set("fault_after", c.op.fault.brief());
    o->set("shrink", sz);
    o->set("case", c.toJson());
    if (!writeFile(out, o->dump() + "\n")) return 2;
    printf("minimised in %d executions: cells %zu -> %zu, fault %s -> %s\n",
           s.execs, orig.op.cells.size(), c.op.cells.size(),
           orig.op.fault.brief().c_str(), c.op.fault.brief().c_str());
    return 0;
}
