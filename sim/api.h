// api.h — table of the public libh3 API, instantiated twice:
//   SIM  the library under simulation (allocator bound to the simulated heap;
//        in the cov build also instrumented with trace-pc-guard)
//   REF  the same working tree, default allocator, symbols prefixed ref_
#pragma once
#include "h3api.h"

struct H3Api {
#define X(ret, name, args) ret(*name) args;
#include "api_list.inc"
#undef X
};
extern const H3Api SIM;
extern const H3Api REF;

enum Fn {
#define X(ret, name, args) FN_##name,
#include "api_list.inc"
#undef X
    FN_COUNT
};
extern const char *FN_NAMES[FN_COUNT + 1];
int fnByName(const char *name);
