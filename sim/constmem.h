// constmem.h — write-trap on caller-owned *const* inputs (C18).
//
// The API takes its inputs through pointers to const (cell arrays, GeoPolygon,
// vertex arrays, LatLng, strings).  Callers legitimately hand the same input
// object to calls on several threads, so a call that stores to such an object —
// even if it restores the old value before it returns — races with every
// concurrent reader of that object.  Whether a sampled interleaving happens to
// land inside the modify/restore window is a matter of luck; this trap is not:
// while library code runs, the memory holding const inputs is read-only, the
// first store faults, the handler records it, lets exactly that one instruction
// execute (x86 single-step flag) and protects the memory again.  A store that
// CHANGES the stored bytes is reported (a store of the identical value is not).
#pragma once
#include <cstddef>
#include <cstdint>
#include <string>
#include <vector>

struct ConstWrite {
    uintptr_t addr = 0;     // faulting address
    uint64_t offset = 0;    // offset inside its slab (ASLR independent)
    int task = -1;
    int64_t step = 0;
    bool changed = false;   // bytes differ after the instruction completed
    bool shared = false;    // in the slab of inputs shared between tasks
};

void constMemInit();
bool constMemAvailable();

// per-operation inputs of the calling thread (slab chosen by the scheduler's task id)
void *constAlloc(size_t bytes);   // 16-byte aligned, zero-filled
void constSealOp();               // make everything allocated since the last reset read-only
void constUnsealOp();             // writable again and forget the allocations
// the stores trapped on the calling thread since the last call (also those into the shared slab)
std::vector<ConstWrite> constTakeWrites();

// inputs shared by several tasks: allocated once per run, sealed during the sequential and the
// concurrent phase
void *constSharedAlloc(size_t bytes);
void constSharedSeal();
void constSharedUnseal();
void constSharedReset();

// ---- guarded output buffers --------------------------------------------------------------------------------
// Caller-owned OUTPUT buffers of the calling thread's current operation: the buffer ends (up to 15 bytes of
// slack, filled with guard bytes by the caller) at a page boundary and the next page is inaccessible, so a
// library that writes past the documented size faults inside the contained call instead of corrupting the
// simulator's own heap.  Released together by outReleaseOp().
void *outAlloc(size_t bytes, size_t *slack);
void outReleaseOp();

// statistics for the evidence
int64_t constSealedCalls();
int64_t constTrappedStores();
