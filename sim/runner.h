// runner.h — shared declarations of the per-property run drivers
#pragma once
#include <map>
#include <set>
#include <string>

#include "gen.h"
#include "single.h"

struct TierCfg {
    std::string tier = "quick";
    int64_t maxEnum = 600;      // cap on enumerated single-fault indices
    int samplesPerKind = 1;     // sampled F3..F6 plans per input
    int maxCellsOverride = 0;
    bool wantSample = false;    // include a full case in the run line
    int c16MaxCells = 800;
    // C18
    int maxThreads = 8;
    int maxOpsPerTask = 12;
    int scaleMax = 1;
};

struct RunStats {
    int64_t execs = 0, faultedExecs = 0;
    int64_t bypassAllocs = 0;  // requests made with the plain libc allocator instead of the H3_MEMORY seam
    int64_t fired[F_KINDS] = {0};
    std::set<uint64_t> scenarios;
    std::set<uint64_t> cases;  // distinct (input, fault kind, first failing index) with a fault fired
    std::set<std::string> sitesFailed, sitesReached;
    void toJson(JVal &j) const {
        j.set("execs", execs);
        j.set("faulted_execs", faultedExecs);
        if (bypassAllocs) j.set("seam_bypass_allocs", bypassAllocs);
        JP f = JVal::obj();
        for (int k = 1; k < F_KINDS; k++)
            if (fired[k]) f->set(FAULT_NAMES[k], fired[k]);
        j.set("fired", f);
        JP sc = JVal::arr();
        for (auto s : scenarios) sc->push(JVal::str(hex64(s)));
        j.set("scenarios", sc);
        if (!cases.empty()) {
            JP cs = JVal::arr();
            for (auto s : cases) cs->push(JVal::str(hex64(s)));
            j.set("cases", cs);
        }
        JP sf = JVal::arr();
        for (auto &s : sitesFailed) sf->push(JVal::str(s));
        j.set("sites_failed", sf);
        JP sr = JVal::arr();
        for (auto &s : sitesReached) sr->push(JVal::str(s));
        j.set("sites_reached", sr);
    }
};

static inline uint64_t runSeedOf(uint64_t verifSeed, uint64_t prop,
                                 uint64_t runIdx) {
    return mix2(mix2(verifSeed, prop), runIdx);
}

JP runC17(uint64_t runSeed, int64_t runIdx, const TierCfg &cfg);
JP runC16(uint64_t runSeed, int64_t runIdx, const TierCfg &cfg);
std::vector<Verdict> replayCaseC17(const Case &c, std::string &note);
std::vector<Verdict> replayCaseC16(const Case &c, std::string &note);
int minimizeSingle(const std::string &in, const std::string &out);
#ifdef SIM_COV
JP runC18(uint64_t runSeed, int64_t runIdx, const TierCfg &cfg);
int replayC18(const JVal &file, const std::string &path);
int minimizeC18(const std::string &in, const std::string &out);
#endif
