// main.cc — simh3: the simulator binary.
//   simh3 run <C16|C17|C18> --seed S --runs N --workers W --worker I --tier T
//   simh3 replay <file>        exit 1 + VIOLATION line iff the violation reproduces
//   simh3 minimize <in> <out>
#include <time.h>
#include <unistd.h>

#include "ambient.h"
#include "runner.h"
#include "statics.h"
#include "constmem.h"
#ifdef SIM_COV
#include "vsched.h"
#include "trap.h"
#endif

static const char *argVal(int argc, char **argv, const char *name,
                          const char *def) {
    for (int i = 1; i + 1 < argc; i++)
        if (!strcmp(argv[i], name)) return argv[i + 1];
    return def;
}

#ifdef SIM_COV
// same encoding as c18.cc: guard id g is bit (g % 4) of hex digit g / 4
static std::string covBitmapHex(const std::vector<uint32_t> &ids, int n) {
    static const char *H = "0123456789abcdef";
    std::vector<uint8_t> nib((size_t)(n / 4 + 1), 0);
    for (auto id : ids)
        if ((int)id <= n) nib[id / 4] |= (uint8_t)(1 << (id % 4));
    std::string s(nib.size(), '0');
    for (size_t i = 0; i < nib.size(); i++) s[i] = H[nib[i]];
    return s;
}
#endif

static uint64_t propCode(const std::string &p) {
    return (uint64_t)atoi(p.c_str() + 1);
}

static TierCfg tierCfg(const std::string &prop, const std::string &tier) {
    TierCfg c;
    c.tier = tier;
    if (tier == "thorough") {
        c.maxEnum = 3000;
        c.samplesPerKind = 3;
        c.c16MaxCells = 2500;
        c.maxThreads = 16;
        c.maxOpsPerTask = 30;
        c.scaleMax = 2;
    }
    (void)prop;
    return c;
}

static int cmdRun(int argc, char **argv) {
    std::string prop = argv[2];
    uint64_t seed = strtoull(argVal(argc, argv, "--seed", "1"), nullptr, 0);
    int64_t runs = atoll(argVal(argc, argv, "--runs", "10"));
    int64_t first = atoll(argVal(argc, argv, "--first", "0"));
    int workers = atoi(argVal(argc, argv, "--workers", "1"));
    int worker = atoi(argVal(argc, argv, "--worker", "0"));
    std::string tier = argVal(argc, argv, "--tier", "quick");
    int sampleEvery = atoi(argVal(argc, argv, "--sample-every", "0"));
    int64_t after = atoll(argVal(argc, argv, "--after", "-1"));
    g_wallLimit = atof(argVal(argc, argv, "--wall-limit", "30"));
    TierCfg cfg = tierCfg(prop, tier);
    for (int64_t i = first + worker; i < first + runs; i += workers) {
        if (i <= after) continue;
        staticsRestore();  // every run starts from the pristine image of library statics
        ambientResetPerRun();  // ... and from simulated time 0 / the same random stream
        uint64_t rs = runSeedOf(seed, propCode(prop), (uint64_t)i);
        cfg.wantSample = sampleEvery > 0 && (i % sampleEvery) == 0;
        JP line;
        struct timespec t0, t1;
        clock_gettime(CLOCK_MONOTONIC, &t0);
        if (prop == "C17")
            line = runC17(rs, i, cfg);
        else if (prop == "C16")
            line = runC16(rs, i, cfg);
#ifdef SIM_COV
        else if (prop == "C18")
            line = runC18(rs, i, cfg);
#endif
        else {
            fprintf(stderr, "unknown property %s in this build\n", prop.c_str());
            return 2;
        }
#ifdef SIM_COV
        // edge coverage of the instrumented library (clang builds only): cumulative per worker, emitted
        // whenever it grew; reporting only — never part of the event-log hash or of a verdict
        if (prop != "C18" && guardCount() > 0) {
            static int lastCovered = -1;
            int now = guardsCovered();
            if (now != lastCovered) {
                line->set("cov", covBitmapHex(guardCoveredIds(), guardCount()));
                lastCovered = now;
            }
        }
#endif
        {
            AmbientReads ar = ambientReads();
            if (ar.total()) {
                JP a = JVal::obj();
                a->set("clock", (int64_t)ar.clock).set("random", (int64_t)ar.random).set("env", (int64_t)ar.env);
                a->set("sleep", (int64_t)ar.sleep).set("lock", (int64_t)ar.lock).set("lock_contended", (int64_t)ar.lockContended);
                a->set("non_reentrant_libc", (int64_t)ar.nonReentrant);
                line->set("ambient_source_calls", a);
            }
        }
        // diagnostics only: never part of the event-log hash or of any verdict
        clock_gettime(CLOCK_MONOTONIC, &t1);
        line->set("wall_ms", (int64_t)((t1.tv_sec - t0.tv_sec) * 1000 + (t1.tv_nsec - t0.tv_nsec) / 1000000));
        std::string s = line->dump();
        fputs(s.c_str(), stdout);
        fputc('\n', stdout);
        fflush(stdout);
    }
    return 0;
}

static int cmdReplay(int argc, char **argv) {
    (void)argc;
    std::string path = argv[2];
    std::string txt;
    if (!readFile(path, txt)) {
        fprintf(stderr, "cannot read %s\n", path.c_str());
        return 2;
    }
    JParser jp(txt);
    JP f = jp.parse();
    if (!jp.ok) {
        fprintf(stderr, "bad JSON in %s\n", path.c_str());
        return 2;
    }
    std::string prop = f->gets("property");
    std::string cls = f->gets("class");
#ifdef SIM_COV
    if (prop == "C18") return replayC18(*f, path);
#endif
    if (prop != "C16" && prop != "C17") {
        fprintf(stderr, "replay: property %s is not handled by this binary\n",
                prop.c_str());
        return 2;
    }
    Case c = Case::fromJson(*f->get("case"));
    std::string note;
    std::vector<Verdict> vs =
        prop == "C16" ? replayCaseC16(c, note) : replayCaseC17(c, note);
    printf("replay %s: %s under %s\n  %s\n", path.c_str(), c.op.brief().c_str(),
           c.op.fault.brief().c_str(), note.c_str());
    bool hit = false;
    for (auto &v : vs) {
        printf("  verdict %s: %s%s%s\n", v.oracle.c_str(), v.detail.c_str(),
               v.site ? " @ " : "", v.site ? symName(v.site).c_str() : "");
        if (v.oracle == cls) hit = true;
    }
    if (hit) {
        printf("VIOLATION property=%s replay=%s\n", prop.c_str(), path.c_str());
        return 1;
    }
    printf("not reproduced: no verdict of class %s\n", cls.c_str());
    return 0;
}

int main(int argc, char **argv) {
#ifdef SIM_COV
    if (argc == 2 && !strcmp(argv[1], "layout")) {
        // static description of the instrumented build, for the evidence
        symLoad(argv[0]);
        trapInit(argv[0]);
        JP j = JVal::obj();
        j->set("guards", (int64_t)guardCount());
        j->set("functions_with_guards", (int64_t)guardFunctionsTotal());
        j->set("protected_static_bytes", (int64_t)trapProtectedBytes());
        JP a = JVal::arr();
        for (auto &s : trapProtectedSymbols()) a->push(JVal::str(s));
        j->set("protected_static_symbols", a);
        extern std::vector<std::string> guardFunctionNames();
        JP g = JVal::arr();
        for (auto &s : guardFunctionNames()) g->push(JVal::str(s));
        j->set("guard_functions", g);
        extern std::vector<uint64_t> guardPcs();
        JP pcs = JVal::arr();
        for (auto pc : guardPcs()) pcs->push(JVal::str(hex64(pc)));
        j->set("guard_pcs", pcs);
        puts(j->dump().c_str());
        return 0;
    }
#endif
    if (argc < 3) {
        fprintf(stderr,
                "usage: simh3 run <C16|C17|C18> [--seed S --runs N --workers W "
                "--worker I --tier T]\n       simh3 replay <file>\n       simh3 "
                "minimize <in> <out>\n");
        return 2;
    }
    ambientInit();
    heapInit();
    containInstall();
    symLoad(argv[0]);
    genInitWorld();
    staticsInit();
#ifdef SIM_COV
    trapInit(argv[0]);
#endif
    constMemInit();
    ambientFixDefault();
    std::string cmd = argv[1];
    if (cmd == "run") return cmdRun(argc, argv);
    if (cmd == "replay") return cmdReplay(argc, argv);
    if (cmd == "minimize" && argc >= 4) {
        std::string txt;
        if (readFile(argv[2], txt)) {
            JParser jp(txt);
            JP f = jp.parse();
#ifdef SIM_COV
            if (jp.ok && f->gets("property") == "C18")
                return minimizeC18(argv[2], argv[3]);
#endif
        }
        g_wallLimit = 30;
        return minimizeSingle(argv[2], argv[3]);
    }
    fprintf(stderr, "unknown command %s\n", cmd.c_str());
    return 2;
}

#ifdef SIM_DELEGATE_MALLOC
// sanitizer builds: a report must kill the worker with a recognisable status
// (the driver re-runs the run alone and reports it with the sanitizer text);
// leak checking is done by the simulated heap's own bookkeeping, not by LSan.
extern "C" __attribute__((used)) const char *__asan_default_options() {
    return "exitcode=77:detect_leaks=0:handle_segv=0:handle_sigbus=0:handle_sigfpe=0:handle_abort=0:"
           "allocator_may_return_null=1:abort_on_error=0:use_sigaltstack=0";
}
extern "C" __attribute__((used)) const char *__ubsan_default_options() {
    return "halt_on_error=1:exitcode=78:print_stacktrace=1";
}
#endif
