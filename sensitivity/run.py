#!/usr/bin/env python3
"""Sensitivity suite: every planted defect must be caught by the quick tier of
its property; the "none-expected" control must stay green.

  python3 sensitivity/run.py [name-substring ...]      -> sensitivity/RESULTS.json

Each defect is applied to a scratch copy of /repo's src tree under
/tmp/verif-sens/<name> (removed afterwards); /repo itself, /verif/evidence and
/verif/replays are never touched (checks are redirected with VERIF_REPO,
VERIF_BUILD_DIR, VERIF_EVIDENCE_DIR, VERIF_REPLAY_DIR)."""
import json, os, shutil, subprocess, sys, time, re

HERE = os.path.dirname(os.path.abspath(__file__))
VERIF = os.path.dirname(HERE)
sys.path.insert(0, HERE)
from planted import M  # noqa: E402

SCRATCH = "/tmp/verif-sens-%d" % os.getpid()   # per process: two suites may run side by side


def apply(root, file, old, new):
    p = os.path.join(root, file)
    s = open(p).read()
    if s.count(old) != 1:
        raise RuntimeError("pattern occurs %d times in %s" % (s.count(old), file))
    open(p, "w").write(s.replace(old, new))


def run_one(mu, keep=False):
    root = os.path.join(SCRATCH, mu["name"])
    shutil.rmtree(root, ignore_errors=True)
    os.makedirs(root)
    shutil.copytree("/repo/src", os.path.join(root, "src"))
    shutil.copy("/repo/VERSION", root)
    apply(root, mu["file"], mu["old"], mu["new"])
    for f, o, n in mu.get("also", []):
        apply(root, f, o, n)
    env = dict(os.environ, VERIF_REPO=root, VERIF_BUILD_DIR=os.path.join(root, "build"),
               VERIF_EVIDENCE_DIR=os.path.join(root, "evidence"), VERIF_REPLAY_DIR=os.path.join(root, "replays"))
    t0 = time.time()
    p = subprocess.run([os.path.join(VERIF, "check"), mu["prop"], "quick"], env=env, stdout=subprocess.PIPE,
                       stderr=subprocess.STDOUT, text=True)
    dt = time.time() - t0
    out = p.stdout
    classes = sorted(set(re.findall(r"^\s+((?:O|R|I)\d-[\w-]+) in ", out, re.M)))
    viol = re.findall(r"^VIOLATION property=(\w+) replay=(\S+)", out, re.M)
    shrink = None
    for _, rp in viol[:1]:
        try:
            shrink = json.load(open(rp)).get("shrink")
        except Exception:
            pass
    res = dict(name=mu["name"], property=mu["prop"], what=mu["what"], expected=mu["expect"], exit=p.returncode,
               classes=classes, violations=len(viol), wall_s=round(dt, 1), shrink=shrink)
    if mu["expect"] == "none-expected":
        res["ok"] = p.returncode == 0
    else:
        res["ok"] = p.returncode == 1 and len(viol) > 0 and (mu["expect"] is None or mu["expect"] in classes)
    if not res["ok"]:
        res["tail"] = out[-1500:]
    if not keep:
        shutil.rmtree(root, ignore_errors=True)
    return res


def main():
    sel = sys.argv[1:]
    results = []
    for mu in M:
        if sel and not any(s in mu["name"] for s in sel):
            continue
        r = run_one(mu)
        results.append(r)
        print("%-36s %-4s exit=%d %-8s %s  (%.0fs)" % (r["name"], r["property"], r["exit"], "OK" if r["ok"] else "MISSED",
                                                      ",".join(r["classes"]), r["wall_s"]), flush=True)
        if not r["ok"]:
            print(r.get("tail", ""))
    if not sel:
        json.dump(results, open(os.path.join(HERE, "RESULTS.json"), "w"), indent=1)
    shutil.rmtree(SCRATCH, ignore_errors=True)
    bad = [r["name"] for r in results if not r["ok"]]
    print("%d/%d as expected%s" % (len(results) - len(bad), len(results), (": missed " + ", ".join(bad)) if bad else ""))
    return 1 if bad else 0


if __name__ == "__main__":
    sys.exit(main())
