"""Planted defects (DESIGN.md §2.10).  Each is a (file, old, new) replacement
applied to a scratch copy of /repo's src tree (never to /repo).  Every one of
them compiles; each must be caught by the quick tier of the named property."""

M = []


def m(name, prop, file, old, new, what, expect=None):
    M.append(dict(name=name, prop=prop, file=file, old=old, new=new, what=what, expect=expect))


H3INDEX = "src/h3lib/lib/h3Index.c"
ALGOS = "src/h3lib/lib/algos.c"
POLYFILL = "src/h3lib/lib/polyfill.c"
DEDGE = "src/h3lib/lib/directedEdge.c"
LINKED = "src/h3lib/lib/linkedGeo.c"
MATHX = "src/h3lib/lib/mathExtensions.c"
VGRAPH = "src/h3lib/lib/vertexGraph.c"

# ------------------------------------------------------------------ C17 ----
m("c17-leak-on-duplicate", "C17", H3INDEX,
  """                                // Only possible on duplicate input
                                H3_MEMORY(free)(remainingHexes);
                                H3_MEMORY(free)(hashSetArray);
                                return E_DUPLICATE_INPUT;""",
  """                                // Only possible on duplicate input
                                H3_MEMORY(free)(remainingHexes);
                                return E_DUPLICATE_INPUT;""",
  "compactCells: hashSetArray not freed on the E_DUPLICATE_INPUT path", "O3-leak")

m("c17-double-free-compactable", "C17", H3INDEX,
  """        numRemainingHexes = compactableCount;
        H3_MEMORY(free)(compactableHexes);""",
  """        numRemainingHexes = compactableCount;
        H3_MEMORY(free)(compactableHexes);
        if (compactableCount == 0) H3_MEMORY(free)(compactableHexes);""",
  "compactCells: compactableHexes freed twice when a round compacts nothing", "O4-double-free")

m("c17-missing-null-check", "C17", ALGOS,
  """    if (!found) {
        H3_MEMORY(free)(bboxes);
        H3_MEMORY(free)(search);
        return E_MEMORY_ALLOC;
    }""",
  """    if (!found && numHexagons < 0) {
        H3_MEMORY(free)(bboxes);
        H3_MEMORY(free)(search);
        return E_MEMORY_ALLOC;
    }""",
  "polygonToCells: NULL check of the third allocation disabled", "O1-crash")

m("c17-wrong-code-iter", "C17", POLYFILL,
  """    if (!iter._bboxes) {
        iterErrorPolygonCompact(&iter, E_MEMORY_ALLOC);""",
  """    if (!iter._bboxes) {
        iterErrorPolygonCompact(&iter, E_FAILED);""",
  "_iterInitPolygonCompact: E_FAILED instead of E_MEMORY_ALLOC", "O2-wrong-code")

m("c17-leak-on-bounds", "C17", POLYFILL,
  """        if (i >= size) {
            iterDestroyPolygon(&iter);
            return E_MEMORY_BOUNDS;""",
  """        if (i >= size) {
            return E_MEMORY_BOUNDS;""",
  "polygonToCellsExperimental: iterator not destroyed on E_MEMORY_BOUNDS", "O3-leak")

m("c17-plain-free", "C17", ALGOS,
  """            H3_MEMORY(free)(distances);
            return result;""",
  """            free(distances);
            return result;""",
  "gridDiskDistances: plain free() for a block from H3_MEMORY(calloc)", None)

m("c17-leak-third-round", "C17", H3INDEX,
  """        numRemainingHexes = compactableCount;
        H3_MEMORY(free)(compactableHexes);""",
  """        numRemainingHexes = compactableCount;
        if (!(numHexes > 300 && compactableCount > 0 && compactableCount < 8))
            H3_MEMORY(free)(compactableHexes);""",
  "compactCells: compactableHexes leaked only in a late round of a deep compaction", "O3-leak")

m("c17-revert-fix-neighbors", "C17", DEDGE,
  """    H3Error neighborRingErr = H3_EXPORT(gridDisk)(origin, 1, neighborRing);
    if (neighborRingErr) {
        return neighborRingErr;
    }""",
  """    H3_EXPORT(gridDisk)(origin, 1, neighborRing);""",
  "areNeighborCells: inner gridDisk error ignored again (the repaired defect)", "O2-wrong-code")

m("c17-revert-fix-polyfill", "C17", ALGOS,
  """            H3Error ringErr = H3_EXPORT(gridDisk)(searchHex, 1, ring);
            if (ringErr) {
                H3_MEMORY(free)(search);
                H3_MEMORY(free)(found);
                H3_MEMORY(free)(bboxes);
                return ringErr;
            }""",
  """            H3_EXPORT(gridDisk)(searchHex, 1, ring);""",
  "polygonToCells: inner gridDisk error ignored again (the repaired defect)", "O2-wrong-code")

m("c17-partial-fix-polyfill-leak", "C17", ALGOS,
  """            if (ringErr) {
                H3_MEMORY(free)(search);
                H3_MEMORY(free)(found);
                H3_MEMORY(free)(bboxes);
                return ringErr;
            }""",
  """            if (ringErr) {
                H3_MEMORY(free)(search);
                H3_MEMORY(free)(bboxes);
                return ringErr;
            }""",
  "polygonToCells: error of the inner gridDisk propagated but 'found' leaked", "O3-leak")

m("c17-leak-on-second-alloc-failure", "C17", H3INDEX,
  """    if (!hashSetArray) {
        H3_MEMORY(free)(remainingHexes);
        return E_MEMORY_ALLOC;
    }""",
  """    if (!hashSetArray) {
        return E_MEMORY_ALLOC;
    }""",
  "compactCells: remainingHexes leaked when the second allocation fails", "O3-leak")

m("c17-uninit-scratch", "C17", H3INDEX,
  """    H3Index *hashSetArray = H3_MEMORY(calloc)(numHexes, sizeof(H3Index));""",
  """    H3Index *hashSetArray = H3_MEMORY(malloc)(numHexes * sizeof(H3Index));""",
  "compactCells: hash set from malloc instead of calloc (relies on fresh memory being zero)", None)

m("c17-use-after-free", "C17", ALGOS,
  """    // The out memory structure should be complete, end it here
    H3_MEMORY(free)(bboxes);
    H3_MEMORY(free)(search);
    H3_MEMORY(free)(found);
    return E_SUCCESS;""",
  """    // The out memory structure should be complete, end it here
    H3_MEMORY(free)(bboxes);
    H3_MEMORY(free)(search);
    H3_MEMORY(free)(found);
    found[0] = 0;
    return E_SUCCESS;""",
  "polygonToCells: write to 'found' after it was freed", None)

m("c17-overflow-scratch", "C17", ALGOS,
  """        distances = H3_MEMORY(calloc)(maxIdx, sizeof(int));
            if (!distances) {
                return E_MEMORY_ALLOC;
            }""",
  """        distances = H3_MEMORY(calloc)(maxIdx, sizeof(int));
            if (!distances) {
                return E_MEMORY_ALLOC;
            }
            distances[maxIdx] = 0;""",
  "gridDiskDistances: one-element overflow of the scratch distances array", "O6-redzone")

m("c17-plain-malloc-leak-on-error", "C17", ALGOS,
  """            distances = H3_MEMORY(calloc)(maxIdx, sizeof(int));
            if (!distances) {
                return E_MEMORY_ALLOC;
            }
            H3Error result = _gridDiskDistancesInternal(origin, k, out,
                                                        distances, maxIdx, 0);
            H3_MEMORY(free)(distances);
            return result;""",
  """            distances = calloc(maxIdx, sizeof(int));
            if (!distances) {
                return E_MEMORY_ALLOC;
            }
            H3Error result = _gridDiskDistancesInternal(origin, k, out,
                                                        distances, maxIdx, 0);
            if (result) return result;
            free(distances);
            return result;""",
  "gridDiskDistances: scratch array from the plain libc calloc (seam bypassed) and leaked when the fallback "
  "meets an invalid cell", "O3-leak")

m("c17-plain-malloc-seam-free", "C17", H3INDEX,
  """    H3Index *remainingHexes = H3_MEMORY(malloc)(numHexes * sizeof(H3Index));""",
  """    H3Index *remainingHexes = malloc(numHexes * sizeof(H3Index));""",
  "compactCells: first scratch array from plain malloc but released through H3_MEMORY(free)", "O4-bad-free")

m("c17-leak-fill-loop-efailed", "C17", ALGOS,
  """                    if (loopCount > numHexagons) {
                        H3_MEMORY(free)(search);
                        H3_MEMORY(free)(found);
                        H3_MEMORY(free)(bboxes);
                        return E_FAILED;""",
  """                    if (loopCount > numHexagons) {
                        H3_MEMORY(free)(search);
                        H3_MEMORY(free)(bboxes);
                        return E_FAILED;""",
  "polygonToCells: 'found' leaked on the E_FAILED exit of the fill loop (output table full; reached only when "
  "the caller's output array is not zero-filled or the size estimate is exceeded)", "O3-leak")

m("c17-many-holes-scratch-leak", "C17", POLYFILL,
  """    bboxesFromGeoPolygon(polygon, iter._bboxes);

    return iter;""",
  """    bboxesFromGeoPolygon(polygon, iter._bboxes);
    if (polygon->numHoles > 16) {
        // "validate" polygons with many holes in a temporary copy of the boxes - never released
        BBox *tmp = H3_MEMORY(malloc)((polygon->numHoles + 1) * sizeof(BBox));
        if (tmp) memcpy(tmp, iter._bboxes, (polygon->numHoles + 1) * sizeof(BBox));
    }

    return iter;""",
  "_iterInitPolygonCompact: extra scratch block leaked for polygons with more than 16 holes only", "O3-leak")

m("c17-hang-on-failed-alloc", "C17", H3INDEX,
  """        if (!compactableHexes) {
            H3_MEMORY(free)(remainingHexes);
            H3_MEMORY(free)(hashSetArray);
            return E_MEMORY_ALLOC;
        }""",
  """        if (!compactableHexes) {
            // "retry until memory is available"
            while (!compactableHexes) compactableHexes = H3_MEMORY(calloc)(maxCompactableCount, sizeof(H3Index));
        }""",
  "compactCells: retries the per-round allocation forever instead of reporting E_MEMORY_ALLOC (never returns when "
  "the allocator keeps failing; returns success when it fails once)", None)

# ------------------------------------------------------------------ C18 ----
m("c18-memo-ipow", "C18", MATHX,
  """int64_t _ipow(int64_t base, int64_t exp) {
    int64_t result = 1;""",
  """int64_t _ipow(int64_t base, int64_t exp) {
    static int64_t memoBase, memoExp, memoResult;
    if (exp > 0 && memoBase == base && memoExp == exp) return memoResult;
    int64_t exp0 = exp, base0 = base;
    int64_t result = 1;""",
  "_ipow: one-entry memo cache in static storage (part 1 of 2)", "I1-static-write")
M[-1]["also"] = [(MATHX, """        base *= base;
    }

    return result;""", """        base *= base;
    }
    memoBase = base0;
    memoExp = exp0;
    memoResult = result;

    return result;""")]

m("c18-static-scratch-boundary", "C18", DEDGE,
  """    if (isPent) {
        _faceIjkPentToCellBoundary(&fijk, res, startVertex, 2, cb);
    } else {
        _faceIjkToCellBoundary(&fijk, res, startVertex, 2, cb);
    }
    return E_SUCCESS;""",
  """    static CellBoundary scratch;
    if (isPent) {
        _faceIjkPentToCellBoundary(&fijk, res, startVertex, 2, &scratch);
    } else {
        _faceIjkToCellBoundary(&fijk, res, startVertex, 2, &scratch);
    }
    *cb = scratch;
    return E_SUCCESS;""",
  "directedEdgeToBoundary: static scratch CellBoundary", "I1-static-write")

m("c18-lazy-table", "C18", POLYFILL,
  """        double lngRatio = 1 / cos(center.lat);""",
  """        static double halfEdge[MAX_H3_RES + 1];
        static int halfEdgeReady;
        if (!halfEdgeReady) {
            for (int r = 0; r <= MAX_H3_RES; r++)
                halfEdge[r] = MAX_EDGE_LENGTH_RADS[r] / 2;
            halfEdgeReady = 1;
        }
        double lngRatio = 1 / cos(center.lat) + 0 * halfEdge[res];""",
  "cellToBBox: lazily initialised static table", "I1-static-write")

m("c18-static-message", "C18", H3INDEX,
  """    } else {
        return "Invalid error code";
    }""",
  """    } else {
        static char msg[64];
        sprintf(msg, "Invalid error code");
        return msg;
    }""",
  "describeH3Error: static message buffer for unknown codes", "I1-static-write")

m("c18-last-error-global", "C18", H3INDEX,
  """H3Error H3_EXPORT(cellToParent)(H3Index h, int parentRes, H3Index *out) {
    int childRes = H3_GET_RESOLUTION(h);
    if (parentRes < 0 || parentRes > MAX_H3_RES) {
        return E_RES_DOMAIN;""",
  """H3Error h3LastError;
H3Error H3_EXPORT(cellToParent)(H3Index h, int parentRes, H3Index *out) {
    int childRes = H3_GET_RESOLUTION(h);
    if (parentRes < 0 || parentRes > MAX_H3_RES) {
        h3LastError = E_RES_DOMAIN;
        return E_RES_DOMAIN;""",
  "cellToParent: global 'last error' variable written on the error path only", "I1-static-write")

m("c18-static-counter-compact", "C18", H3INDEX,
  """    H3Index *compactedSetOffset = compactedSet;
    int64_t numRemainingHexes = numHexes;""",
  """    H3Index *compactedSetOffset = compactedSet;
    static int64_t numRemainingHexes;
    numRemainingHexes = numHexes;""",
  "compactCells: loop counter moved to static storage", "I1-static-write")

m("c18-strtok-parser", "C18", H3INDEX,
  """    int read = sscanf(str, "%" PRIx64, &h);
    if (read != 1) {
        return E_FAILED;
    }""",
  """    char tmp[64];
    strncpy(tmp, str, sizeof(tmp) - 1);
    tmp[sizeof(tmp) - 1] = 0;
    char *tok = strtok(tmp, " ");
    if (tok == NULL) return E_FAILED;
    char *rest = strtok(NULL, " ");
    (void)rest;
    int read = sscanf(tok, "%" PRIx64, &h);
    if (read != 1) {
        return E_FAILED;
    }""",
  "stringToH3: strtok-based parser (its results never depend on the interleaving, but two concurrent calls write "
  "libc's one saved-position object: a data race through the library, and the caller's own tokenising loop is "
  "clobbered)", "I6-ambient-state")

m("c18-strtok-trailing-token", "C18", H3INDEX,
  """    int read = sscanf(str, "%" PRIx64, &h);
    if (read != 1) {
        return E_FAILED;
    }""",
  """    char tmp[64];
    strncpy(tmp, str, sizeof(tmp) - 1);
    tmp[sizeof(tmp) - 1] = 0;
    char *tok = strtok(tmp, " ");
    if (tok == NULL) return E_FAILED;
    // "strict" parsing: anything after the number is rejected
    char *rest = strtok(NULL, " ");
    if (rest != NULL) return E_FAILED;
    int read = sscanf(tok, "%" PRIx64, &h);
    if (read != 1) {
        return E_FAILED;
    }""",
  "stringToH3: strtok-based strict parser; the continuation call reads libc's hidden pointer, which another "
  "thread's stringToH3 has moved in the meantime (needs a string with a trailing token, a second thread parsing "
  "between the two strtok calls: a window of a few instructions)", "I3-result-differs")

m("c18-tls-memo-wrong-key", "C18", H3INDEX,
  """    int n = childRes - H3_GET_RESOLUTION(h);

    if (H3_EXPORT(isPentagon)(h)) {
        *out = 1 + 5 * (_ipow(7, n) - 1) / 6;
    } else {
        *out = _ipow(7, n);
    }
    return E_SUCCESS;""",
  """    int n = childRes - H3_GET_RESOLUTION(h);

    // per-thread memo of the last answer (thread-local, hence "thread-safe") - keyed by the resolution
    // difference only, although the answer also depends on whether the cell is a pentagon
    static __thread int memoN = -1;
    static __thread int64_t memoSize;
    if (n == memoN && n > 0) {
        *out = memoSize;
        return E_SUCCESS;
    }
    if (H3_EXPORT(isPentagon)(h)) {
        *out = 1 + 5 * (_ipow(7, n) - 1) / 6;
    } else {
        *out = _ipow(7, n);
    }
    memoN = n;
    memoSize = *out;
    return E_SUCCESS;""",
  "cellToChildrenSize: thread-local memo with an incomplete key; no shared memory is written and there is no data "
  "race, but a result depends on the calls made earlier on the same thread (pentagon then hexagon with the same "
  "resolution difference, or the reverse)", "I3-result-differs")

m("c18-shared-scratch-race", "C18", ALGOS,
  """H3Error H3_EXPORT(maxGridDiskSize)(int k, int64_t *out) {
    if (k < 0) {
        return E_DOMAIN;
    }""",
  """static __thread int64_t tlsLastK;
H3Error H3_EXPORT(maxGridDiskSize)(int k, int64_t *out) {
    tlsLastK = k;
    if (k < 0) {
        return E_DOMAIN;
    }""",
  "maxGridDiskSize: thread-local scratch (legal; must NOT be flagged)", "none-expected")

m("c18-custom-section-static", "C18", H3INDEX,
  """int H3_EXPORT(isPentagon)(H3Index h) {
    return _isBaseCellPentagon(H3_GET_BASE_CELL(h)) &&
           !_h3LeadingNonZeroDigit(h);
}""",
  """int H3_EXPORT(isPentagon)(H3Index h) {
    static H3Index lastAsked __attribute__((section("h3_hot_state")));
    static int lastAnswer __attribute__((section("h3_hot_state")));
    if (h != 0 && lastAsked == h) return lastAnswer;
    int answer = _isBaseCellPentagon(H3_GET_BASE_CELL(h)) &&
                 !_h3LeadingNonZeroDigit(h);
    lastAnswer = answer;
    lastAsked = h;
    return answer;
}""",
  "isPentagon: one-entry cache in static variables placed in a custom-named writable section", "I1-static-write")

m("c18-const-input-scribble", "C18", POLYFILL,
  """        out[i++] = iter.cell;
    }
    return iter.error;""",
  """        out[i++] = iter.cell;
    }
    H3Error iterErr = iter.error;
    if (polygon->geoloop.numVerts > 0 && res >= 0 && res <= MAX_H3_RES) {
        // scratch use of the caller's (const) first vertex, restored bit for bit
        LatLng *v0 = (LatLng *)polygon->geoloop.verts;
        double savedLat = v0->lat;
        v0->lat = savedLat * 0.5;
        H3Index probe;
        H3_EXPORT(latLngToCell)(v0, res, &probe);
        v0->lat = savedLat;
    }
    return iterErr;""",
  "polygonToCellsExperimental: caller's const polygon modified for a few dozen instructions at the END of the call and restored (visible only to a concurrent reader of the same polygon inside that window)", None)

m("c18-const-input-flicker", "C18", H3INDEX,
  """    int res = H3_GET_RESOLUTION(h3Set[0]);
    if (res == 0) {
        // No compaction possible, just copy the set to output""",
  """    // the first element doubles as a scratch slot for three straight-line instructions (no branch, hence no
    // preemption point of an edge-level scheduler in between) and is restored bit for bit
    volatile H3Index *scratch = (volatile H3Index *)h3Set;
    H3Index keep = scratch[0];
    scratch[0] = keep >> 52;
    int res = (int)(scratch[0] & 0xF);
    scratch[0] = keep;
    if (res == 0) {
        // No compaction possible, just copy the set to output""",
  "compactCells: caller's const cell array used as scratch for three straight-line instructions and restored "
  "(no control-flow edge inside the window: invisible to result comparison under an edge-level scheduler; only the "
  "write-trap on const inputs sees it)", "I2-const-input-write")

m("c18-ftz-daz-left-on", "C18", "src/h3lib/lib/latLng.c",
  """double H3_EXPORT(greatCircleDistanceRads)(const LatLng *a, const LatLng *b) {
    double sinLat = sin((b->lat - a->lat) * 0.5);""",
  """#if defined(__x86_64__)
#include <xmmintrin.h>
#endif
double H3_EXPORT(greatCircleDistanceRads)(const LatLng *a, const LatLng *b) {
#if defined(__x86_64__)
    // "denormals are slow": flush-to-zero / denormals-are-zero switched on and never switched off again
    _mm_setcsr(_mm_getcsr() | 0x8040);
#endif
    double sinLat = sin((b->lat - a->lat) * 0.5);""",
  "greatCircleDistanceRads: enables FTZ/DAZ in the thread's MXCSR and leaves it on (every later floating-point "
  "computation of the calling thread changes for denormal values; rounding mode untouched)", "I6-ambient-state")

m("c18-mutex-protected-cache", "C18", MATHX,
  """int64_t _ipow(int64_t base, int64_t exp) {
    int64_t result = 1;""",
  """#include <pthread.h>
static pthread_mutex_t ipowLock = PTHREAD_MUTEX_INITIALIZER;
static int64_t ipowBase, ipowExp, ipowResult;
int64_t _ipow(int64_t base, int64_t exp) {
    pthread_mutex_lock(&ipowLock);
    if (exp > 0 && ipowBase == base && ipowExp == exp) {
        int64_t r = ipowResult;
        pthread_mutex_unlock(&ipowLock);
        return r;
    }
    int64_t base0 = base, exp0 = exp;
    int64_t result = 1;""",
  "_ipow: memo cache protected by a static mutex (race-free, but mutable global state; must not deadlock the simulator)", "I1-static-write")
M[-1]["also"] = [(MATHX, """        base *= base;
    }

    return result;""", """        base *= base;
    }
    ipowBase = base0;
    ipowExp = exp0;
    ipowResult = result;
    pthread_mutex_unlock(&ipowLock);

    return result;""")]

m("c18-random-start-offset", "C18", H3INDEX,
  """H3Error H3_EXPORT(cellToChildren)(H3Index h, int childRes, H3Index *children) {
    int64_t i = 0;""",
  """H3Error H3_EXPORT(cellToChildren)(H3Index h, int childRes, H3Index *children) {
    int64_t i = 0;
    int64_t total = 0;
    if (H3_EXPORT(cellToChildrenSize)(h, childRes, &total) == E_SUCCESS && total > 1) {
        // "load balancing": start at a random child and wrap around
        int64_t start = rand() % total;
        for (IterCellsChildren iter = iterInitParent(h, childRes); iter.h; iterStepChild(&iter)) {
            children[(i + start) % total] = iter.h;
            i++;
        }
        return E_SUCCESS;
    }""",
  "cellToChildren: output order depends on the process-wide rand() stream", "I6-ambient-state")

m("c18-gcc-only-static", "C18", "src/h3lib/lib/latLng.c",
  """double H3_EXPORT(degsToRads)(double degrees) { return degrees * M_PI_180; }""",
  """double H3_EXPORT(degsToRads)(double degrees) {
#if defined(__GNUC__) && !defined(__clang__)
    static double lastIn, lastOut;
    if (degrees != 0 && lastIn == degrees) return lastOut;
    lastOut = degrees * M_PI_180;
    lastIn = degrees;
    return lastOut;
#else
    return degrees * M_PI_180;
#endif
}""",
  "degsToRads: one-entry cache that exists only when compiled with gcc (the instrumented build uses clang)", "I1-static-write")

# ------------------------------------------------------------------ C16 ----
m("c16-skip-last-polygon", "C16", LINKED,
  """        if (skip) {
            // do not free the input polygon
            skip = false;
        } else {
            H3_MEMORY(free)(currentPolygon);
        }""",
  """        if (skip) {
            // do not free the input polygon
            skip = false;
        } else if (nextPolygon != NULL) {
            H3_MEMORY(free)(currentPolygon);
        }""",
  "destroyLinkedMultiPolygon: last polygon of a multi-polygon result not freed", "R3-leak-after-destroy")

m("c16-unassigned-hole-leak", "C16", LINKED,
  """            destroyLinkedGeoLoop(innerLoops[i]);
            H3_MEMORY(free)(innerLoops[i]);
            resultCode = E_FAILED;""",
  """            resultCode = E_FAILED;""",
  "normalizeMultiPolygon: unassigned hole not released on the E_FAILED path", "R2-leak-on-error")

m("c16-read-after-remove", "C16", ALGOS,
  """            addLinkedCoord(loop, &edge->from);
            nextVtx = edge->to;
            // Remove frees the node, so we can't use edge after this
            removeVertexNode(graph, edge);
            edge = findNodeForVertex(graph, &nextVtx);""",
  """            addLinkedCoord(loop, &edge->from);
            // Remove frees the node, so we can't use edge after this
            removeVertexNode(graph, edge);
            nextVtx = edge->to;
            edge = findNodeForVertex(graph, &nextVtx);""",
  "_vertexGraphToLinkedGeo: edge->to read after removeVertexNode freed the node", None)

m("c16-double-free-graph", "C16", VGRAPH,
  """    H3_MEMORY(free)(graph->buckets);
}""",
  """    H3_MEMORY(free)(graph->buckets);
    if (graph->numBuckets > 64) H3_MEMORY(free)(graph->buckets);
}""",
  "destroyVertexGraph: bucket array freed twice for larger graphs", "R4-double-free")

m("c16-uninit-linked-coord", "C16", LINKED,
  """    LinkedGeoLoop *loop = H3_MEMORY(calloc)(1, sizeof(*loop));""",
  """    LinkedGeoLoop *loop = H3_MEMORY(malloc)(sizeof(*loop));""",
  "addNewLinkedLoop: loop header from malloc instead of calloc (first/last/next uninitialised)", None)
